"""External sanitizer jobs of the thorough tier: Miri (C08, C18) and valgrind memcheck (C17)."""
import os, subprocess, time, re

MIRIFLAGS = "-Zmiri-disable-isolation -Zmiri-tree-borrows -Zmiri-permissive-provenance -Zmiri-ignore-leaks"


def _rec(job, case, verdict, viols, sample=None, aborted=None, nontrivial=True, counters=None):
    return {"t": "case", "case": case, "verdict": verdict, "nontrivial": nontrivial, "fp": "%s-%s" % (job["name"], case), "features": {},
            "counters": counters or {}, "violations": viols, "aborted": aborted, "sample": sample, "argv": None}


def run_miri(job, root, workdir, seed, tier, prop):
    """Runs the deterministic scripts of /verif/miri natively and under Miri with a different
    scheduler seed and worker-pool size each; Miri decides, for the schedule it runs: deadlock,
    data race, undefined behaviour in the unsafe internals reached through melda (lru, rayon,
    crossbeam); the printed digests must equal the native run."""
    crate = os.path.join(root, "miri")
    env = dict(os.environ, CARGO_NET_OFFLINE="true")
    nat_dir = os.path.join(root, "target", "mirinative")
    lock = os.path.join(crate, "Cargo.lock")
    if not os.path.exists(lock):
        import shutil
        shutil.copy("/repo/Cargo.lock", lock)
    p = subprocess.run(["cargo", "build", "--release", "--offline"], cwd=crate, env=dict(env, CARGO_TARGET_DIR=nat_dir), capture_output=True, text=True)
    if p.returncode != 0:
        return [_rec(job, 0, "inconclusive", [], aborted="native build of the Miri scripts failed: " + p.stderr[-400:], nontrivial=False)], {"miri": "native build failed"}
    nat = os.path.join(nat_dir, "release", "meldamiri")
    kind = "free" if job.get("regexfree") else "full"
    n = job.get("scripts", 8)
    timeout = 1500 if kind == "free" else 5400
    miri_dir = os.path.join(root, "target", "miri")
    # build once (and create the Miri sysroot) with a no-op run
    b = subprocess.run(["cargo", "+nightly", "miri", "run", "--", "noop"], cwd=crate, env=dict(env, CARGO_TARGET_DIR=miri_dir, MIRIFLAGS=MIRIFLAGS), capture_output=True, text=True, timeout=3000)
    if b.returncode != 0:
        return [_rec(job, 0, "inconclusive", [], aborted="cargo miri could not build/run: " + b.stderr[-600:], nontrivial=False)], {"miri": "unavailable"}
    procs = []
    threads = [2, 3, 4, 2, 3, 5, 2, 4, 3, 2, 4, 3]
    for k in range(n):
        script = (seed * 31 + k) % 1000
        expected = subprocess.run([nat, kind, str(script)], capture_output=True, text=True, env=dict(os.environ, RAYON_NUM_THREADS="2")).stdout
        flags = "%s -Zmiri-seed=%d -Zmiri-env-set=RAYON_NUM_THREADS=%d" % (MIRIFLAGS, seed * 100 + k, threads[k % len(threads)])
        out = open(os.path.join(workdir, "miri_%s_%d.out" % (kind, k)), "w+")
        err = open(os.path.join(workdir, "miri_%s_%d.err" % (kind, k)), "w+")
        pr = subprocess.Popen(["cargo", "+nightly", "miri", "run", "--", kind, str(script)], cwd=crate, env=dict(env, CARGO_TARGET_DIR=miri_dir, MIRIFLAGS=flags), stdout=out, stderr=err)
        procs.append((k, script, expected, pr, out, err, flags, time.time()))
    recs = []
    for (k, script, expected, pr, out, err, flags, t0) in procs:
        try:
            pr.wait(timeout=max(10, timeout - (time.time() - t0)))
            timed_out = False
        except subprocess.TimeoutExpired:
            pr.kill()
            pr.wait()
            timed_out = True
        out.seek(0)
        err.seek(0)
        so, se = out.read(), err.read()
        sample = {"script": "%s %d" % (kind, script), "miriflags": flags, "stdout_lines": so.strip().splitlines()[:6], "wall_s": round(time.time() - t0)}
        viols = []
        if timed_out:
            recs.append(_rec(job, k, "inconclusive", [], sample, aborted="Miri run exceeded %ds" % timeout, nontrivial=False))
            continue
        if "the evaluated program deadlocked" in se:
            viols.append({"prop": "C08", "sig": "C08/miri-deadlock", "detail": "Miri: the evaluated program deadlocked; script %s %d; %s" % (kind, script, se[-900:])})
        elif "Undefined Behavior" in se or "Data race" in se or "data race" in se:
            m = re.search(r"error: (.*)", se)
            viols.append({"prop": "C18", "sig": "C18/miri-undefined-behaviour-or-data-race", "detail": "script %s %d: %s" % (kind, script, (m.group(1) if m else se[-600:]))})
        elif "panicked at" in se:
            viols.append({"prop": "C08", "sig": "C08/miri-panic", "detail": "script %s %d: %s" % (kind, script, se[-600:])})
        elif pr.returncode != 0:
            recs.append(_rec(job, k, "inconclusive", [], sample, aborted="Miri ended with exit %s: %s" % (pr.returncode, se[-300:]), nontrivial=False))
            continue
        elif so != expected:
            viols.append({"prop": "C18", "sig": "C18/miri-run-differs-from-native", "detail": "script %s %d: native %r vs miri %r" % (kind, script, expected[-300:], so[-300:])})
        recs.append(_rec(job, k, "violated" if viols else "held", viols, sample, counters={"miri_runs": 1}))
    return recs, {"miri": "%d %s scripts, flags %s" % (n, kind, MIRIFLAGS)}


def run_memcheck(job, root, workdir, seed, tier, binpath):
    """valgrind memcheck over the only native code in reach (libsqlite3 through rusqlite)."""
    recs = []
    cmds = [
        [binpath, "c17contract", "seed=%d" % seed, "from=0", "to=3", "backend=sqlite", "ops=120", "tmp=" + workdir],
        [binpath, "c17contract", "seed=%d" % seed, "from=0", "to=2", "backend=sqlite+flate", "ops=80", "tmp=" + workdir],
        [binpath, "engine", "seed=%d" % seed, "from=0", "to=2", "profile=general", "backend=sqlite", "steps=14", "tmp=" + workdir],
    ]
    for k, c in enumerate(cmds):
        log = os.path.join(workdir, "memcheck_%d.log" % k)
        t0 = time.time()
        try:
            p = subprocess.run(["valgrind", "--tool=memcheck", "--error-exitcode=99", "--leak-check=no", "--log-file=" + log] + c, capture_output=True, text=True,
                               env=dict(os.environ, RAYON_NUM_THREADS="1"), timeout=3000)
        except subprocess.TimeoutExpired:
            recs.append(_rec(job, k, "inconclusive", [], aborted="memcheck run exceeded 3000s", nontrivial=False))
            continue
        try:
            summary = [l for l in open(log) if "ERROR SUMMARY" in l][-1].strip()
        except Exception:  # noqa
            summary = "?"
        sample = {"cmd": " ".join(c[1:]), "summary": summary, "wall_s": round(time.time() - t0)}
        viols = []
        if p.returncode == 99:
            viols.append({"prop": "C17", "sig": "C17/memcheck-error-in-sqlite-backend", "detail": "%s; log tail: %s" % (summary, open(log).read()[-800:])})
        elif p.returncode != 0:
            recs.append(_rec(job, k, "inconclusive", [], sample, aborted="exit %d under valgrind" % p.returncode, nontrivial=False))
            continue
        # violations the monitors themselves reported in that run
        import json
        for l in p.stdout.splitlines():
            try:
                j = json.loads(l)
            except ValueError:
                continue
            for v in j.get("violations", []) if j.get("t") == "case" else []:
                viols.append(v)
        recs.append(_rec(job, k, "violated" if viols else "held", viols, sample, counters={"memcheck_runs": 1}))
    return recs, {"memcheck": "valgrind 3.19 --tool=memcheck --error-exitcode=99 on SQLite shards"}


def run(job, root, workdir, seed, tier, binpath):
    if job["external"] == "miri":
        return run_miri(job, root, workdir, seed, tier, None)
    if job["external"] == "memcheck":
        return run_memcheck(job, root, workdir, seed, tier, binpath)
    raise ValueError(job["external"])
