#!/bin/bash
# Runs quick checks against a seeded change in an isolated scratch copy (never in /repo, never
# committed): worktree of /repo HEAD + patch, private copy of the harness pointing at it.
#   usage: tools/mutant.sh <name> <patch.diff> [check ids...]      (default: all 19)
# Result lines go to stdout; scratch copies are removed at the end.
name=$1; patch=$(readlink -f "$2"); shift 2
ids="$@"; [ -z "$ids" ] && ids="C01 C02 C03 C04 C05 C06 C07 C08 C09 C10 C11 C12 C13 C14 C15 C16 C17 C18 C19"
base=/tmp/mut-$name
rm -rf $base; mkdir -p $base
git -C /repo worktree add --detach -q $base/repo HEAD || exit 2
cp /repo/Cargo.lock $base/repo/
git -C $base/repo apply "$patch" || { echo "PATCH DOES NOT APPLY"; git -C /repo worktree remove --force $base/repo; rm -rf $base; exit 2; }
cp -r /verif/harness $base/harness
sed -i "s#path = \"/repo\"#path = \"$base/repo\"#" $base/harness/Cargo.toml
sed -i "s#target-dir = .*#target-dir = \"$base/target\"#" $base/harness/.cargo/config.toml
(cd $base/harness && CARGO_NET_OFFLINE=true cargo build --release --offline 2>&1 | grep -E "^error" -A6 | head -20)
if [ ! -x $base/target/release/meldamon ]; then echo "BUILD FAILED"; git -C /repo worktree remove --force $base/repo; rm -rf $base; exit 2; fi
for id in $ids; do
  out=$(cd /verif && VERIF_BIN=$base/target/release/meldamon VERIF_OUT=$base/out ./check $id --tier quick 2>/dev/null | grep -E "VIOLATION|INCONCLUSIVE|verdict=|^  C" | cut -c1-330)
  v=$(echo "$out" | grep -c "^VIOLATION")
  echo "## $name $id violations=$v"
  echo "$out" | grep -E "verdict=|^  C|INCONCLUSIVE" | head -5
done
git -C /repo worktree remove --force $base/repo
rm -rf $base
