import subprocess,sys,os
W='/tmp/mgen'
def mutn(name, edits, prop, why):
    for (file, old, new, count) in edits:
        p=os.path.join(W,file); s=open(p).read()
        assert s.count(old)==count, (name, file, s.count(old))
        open(p,'w').write(s.replace(old,new))
    d=subprocess.run(['git','diff','--','src'],cwd=W,capture_output=True,text=True).stdout
    subprocess.run(['git','checkout','-q','--','src'],cwd=W)
    out='/verif/seeded/M-'+name; os.makedirs(out,exist_ok=True)
    open(out+'/patch.diff','w').write(d)
    open(out+'/notes.md','w').write("Own seeded change (not from an independent sub-agent).\nProperty: %s\n%s\n"%(prop,why))
    print(name, len(d.splitlines()))
mutn('block-before-pack',[
 ('src/datastorage.rs','''    cache: Mutex<LruCache<String, Map<String, Value>>>,
}''','''    cache: Mutex<LruCache<String, Map<String, Value>>>,
    pending_pack: Option<(String, Vec<u8>)>,
}''',1),
 ('src/datastorage.rs','''            applied_pack_ids: BTreeSet::new(),
            cache:''','''            applied_pack_ids: BTreeSet::new(),
            pending_pack: None,
            cache:''',1),
 ('src/datastorage.rs','''        let adapter = self.adapter.write().unwrap();
        adapter.write_object(&pack_key, buf.as_slice())?;
        drop(adapter);
        index_map.iter()''','''        self.pending_pack = Some((pack_key, buf));
        index_map.iter()''',1),
 ('src/datastorage.rs','''    pub fn write_raw_item(&mut self, key: &str, data: &[u8]) -> Result<()> {
        self.adapter.write().unwrap().write_object(key, data)
    }''','''    pub fn write_raw_item(&mut self, key: &str, data: &[u8]) -> Result<()> {
        self.adapter.write().unwrap().write_object(key, data)?;
        // batch the pack together with the block that needs it
        if let Some((k, b)) = self.pending_pack.take() {
            self.adapter.write().unwrap().write_object(&k, &b)?;
        }
        Ok(())
    }''',1),
],'C09','the pack write is batched after the block write')
mutn('no-packdigest',[('src/datastorage.rs','''                if d.eq(pack) {
                    Ok(data)
                } else {
                    Err(anyhow!("mismatching_digest"))
                }''','''                let _ = d;
                Ok(data)''',1)],'C10','pack digest check removed')
mutn('no-objdigest',[('src/datastorage.rs','''            if computed != digest {
                return Err(anyhow!("corrupted_value"));
            }''','''            let _ = computed;''',1)],'C10','per-read object digest check removed')
mutn('no-blockdigest',[('src/melda.rs','''        if !digest.eq(deltaid.digest()) {
            bail!("mismatching_delta_hash");
        }''','''        let _ = digest;''',1)],'C10','block digest check removed')
mutn('pretty-meld',[('src/melda.rs','''                        if let Ok(json) = delta.to_json_string() {''','''                        if let Ok(json) = serde_json::to_string_pretty(&delta.to_json()) {''',1)],'C11','meld re-serialises blocks pretty-printed')
mutn('wrong-base-autoresolve',[('src/melda.rs','''                let w = rt_r.get_winner().ok_or_else(|| anyhow!("no_winner"))?;
                let l = rt_r.get_leafs();
                if l.len() > 1 {
                    to_resolve.push((uuid.clone(), w.to_string()));''','''                let _w = rt_r.get_winner().ok_or_else(|| anyhow!("no_winner"))?;
                let l = rt_r.get_leafs();
                if l.len() > 1 {
                    to_resolve.push((uuid.clone(), l.iter().next().unwrap().to_string()));''',1)],'C12','auto-resolution re-asserts the lowest leaf instead of the winner')
mutn('parents-all-applied',[('src/melda.rs','''        let anchors = self.get_anchors();
        let parents = if anchors.is_empty() {''','''        let anchors: BTreeSet<DeltaId> = self
            .deltas
            .read()
            .unwrap()
            .iter()
            .filter(|(_, d)| d.read().unwrap().status == Status::Applied)
            .map(|(k, _)| k.clone())
            .collect();
        let parents = if anchors.is_empty() {''',1)],'C13','a new block names every applied block as parent')
mutn('first-parent-travel',[('src/melda.rs','''                if let Some(parents) = &delta_r.parents {
                    for b in parents {
                        to_apply.push_back(b.clone());
                    }
                }
                drop(delta_r);''','''                if let Some(parents) = &delta_r.parents {
                    if let Some(b) = parents.iter().next() {
                        to_apply.push_back(b.clone());
                    }
                }
                drop(delta_r);''',1)],'C14','reload_until follows only the first parent')
mutn('unstage-no-revalidate',[('src/revisiontree.rs','''            self.staging = false;
            self.state = ValidationState::NonValidated;
        }
        self.validate();''','''            self.staging = false;
        }''',1)],'C15','unstage keeps the cached winner/leaves')
mutn('cache-break',[('src/melda.rs','''                    if let Some(descriptor) = cache.get(revision) {
                        order = descriptor.get_order().clone().unwrap();
                        break; // Break at last cached descriptor
                    }''','''                    if let Some(descriptor) = cache.get(revision) {
                        order = descriptor.get_order().clone().unwrap();
                        continue;
                    }''',1)],'C16','chain walk continues past the cached descriptor')
mutn('patch-shift',[('src/utils.rs','''                patch.push(json!([PATCH_DELETE, count, s.1]));''','''                patch.push(json!([PATCH_DELETE, count, s.1 + (count > 2) as i32]));''',1)],'C16','delete runs longer than 2 are shifted by one')
mutn('flate-offbyone',[('src/flate2adapter.rs','''            Ok(datavec.as_slice()[offset..offset + length].to_vec())''','''            let end = if length > 4096 { offset + length - 1 } else { offset + length };
            Ok(datavec.as_slice()[offset..end].to_vec())''',1)],'C17','Deflate wrapper drops the last byte of slices longer than 4096')
mutn('sqlite-nostrip',[('src/sqliteadapter.rs','''                key.strip_suffix(ext).map(|k| k.to_string())''','''                if key.ends_with(ext) { Some(key) } else { None }''',1)],'C17','F7 reverted')
mutn('lru-result',[('src/melda.rs','''                cache.put(
                    base_revision.clone(),
                    ArrayDescriptor::new_from_order(order.clone()),
                ); // Only cache the full object
                Ok(order)''','''                if let Some((_, evicted)) = cache.push(
                    base_revision.clone(),
                    ArrayDescriptor::new_from_order(order.clone()),
                ) {
                    // reuse the evicted buffer
                    let mut v = evicted.get_order().clone().unwrap_or_default();
                    if v.len() == order.len() && order.len() > 3 {
                        v.clone_from_slice(&order[..]);
                        v.swap(0, 1);
                        return Ok(v);
                    }
                }
                Ok(order)''',1)],'C18,C16','result depends on whether the LRU evicted an entry of equal length')
mutn('tail6',[('src/revision.rs','''                    Some(fulltail[..7].to_string())
                }
                None => None,''','''                    Some(fulltail[..6].to_string())
                }
                None => None,''',1)],'C19','Revision::new uses 6-digit tails while new_updated uses 7')
mutn('display-notail2',[('src/revision.rs','''        if self.index > 1 {
            write!(''','''        if self.index > 2 {
            write!(''',1)],'C19','index-2 revisions print without their tail')
mutn('escape-noop',[('src/utils.rs','''pub fn escape(s: &str) -> String {
    STRING_ESCAPE_PREFIX.to_string() + s
}''','''pub fn escape(s: &str) -> String {
    if s.starts_with(STRING_ESCAPE_PREFIX) || s.starts_with(ARRAY_DESCRIPTOR_PREFIX) || s.len() > 40 {
        STRING_ESCAPE_PREFIX.to_string() + s
    } else {
        s.to_string()
    }
}''',1)],'C04','only strings that look dangerous are escaped')
mutn('textual-index',[('src/revision.rs','''        } else if self.index < other.index {
            std::cmp::Ordering::Less
        } else if self.index > other.index {
            std::cmp::Ordering::Greater
        } else {''','''        } else if self.index.to_string() < other.index.to_string() {
            std::cmp::Ordering::Less
        } else if self.index.to_string() > other.index.to_string() {
            std::cmp::Ordering::Greater
        } else {''',1)],'C05','indices compared textually')
