#!/usr/bin/env python3
"""Writes seeded/<id>/meta.json from the confirmation and detection logs."""
import json, os, re, glob

NEEDS = {
    "C01a": ("C01", "refresh() returns early when no new block was listed", "a block refreshed while its pack is still missing, then a refresh that brings only the pack (file-copy delivery order)"),
    "C01b": ("C01", "Ord for Revision breaks ties on the digest only (tail ignored)", "two leaves with equal index and digest but different parents: replicas converging to the same content over different intermediate edits"),
    "C02a": ("C02", "blocked blocks are re-examined only when one of their own parents/packs arrived in that refresh", "a grandchild already loaded and blocked when the ancestor's last missing file arrives (newest-first delivery)"),
    "C02b": ("C02", "check_delta blocks a block only if ALL parents are unsatisfied (De Morgan slip)", "a merge block (>=2 parents) delivered with one complete parent chain and the other parent missing"),
    "C03a": ("C03", "pack re-indexer drops the escape state (quote closes a string unless preceded by a backslash)", "a committed string ending in a backslash; only a freshly opened replica is affected"),
    "C03b": ("C03", "commit marks revisions committed before the block is written", "a failing block write, further edits, then a successful commit; only a reopened replica misses the revisions"),
    "C04a": ("C04", "flatten drops the field name from the path of id-less children", "one tracked object owning two flattened single objects without _id"),
    "C04b": ("C04", "write_object skips staging when the digest is still in the LRU object cache", "update, unstage, update with partly identical content, then cache eviction or commit + reopen"),
    "C05a": ("C05", "tie-break compares (digest, tail) field-wise instead of the identifier text", "concurrent delete and update on one parent where the update's digest starts with 'd' + digit"),
    "C05b": ("C05", "root-reachability walk stops at the first committed revision", "a committed revision whose parent was never recorded (dangling subtree)"),
    "C06a": ("C06", "unflatten no longer consumes an element when it is first used", "an element moved between two arrays on one replica while another replica edits the source array"),
    "C06b": ("C06", "array merge folds all leaves into an empty base instead of starting from the winner's order", "two replicas reordering the same array so that their versions disagree on common elements"),
    "C07a": ("C07", "resolve_as skips the re-assert when the chosen revision already is the winner", "commit (auto-resolution) with an array in conflict and a staged change that does not rewrite that array"),
    "C07b": ("C07", "Ord for Revision compares the text (index not compared numerically)", "a three-way conflict whose winning branch reaches index 9/10"),
    "C08a": ("C08", "commit resolves array conflicts inside the loop that still holds documents.read()", "a commit with something staged while a flattened array has two live leaves (self-deadlock on documents.write())"),
    "C08b": ("C08", "refresh step 4 written as `if let Status::Blocked = delta.read()...status { delta.write() }`", "any refresh while a Blocked block exists (block delivered before its parent)"),
    "C09a": ("C09", "DataStorage::pack drains the stage before the pack write", "a failing pack write followed by a retry; only a reopened replica loses the commit"),
    "C09b": ("C09", "revision trees are committed before the block write", "a failing block write: staging vanishes, retry is a silent no-op"),
    "C10a": ("C10", "check_delta skips the hash check of packs that are already indexed", "a pack damaged in place after it was indexed and before a held-back block naming it becomes applicable"),
    "C10b": ("C10", "parent gating uses any() instead of all()", "a merge block with one damaged/missing parent and one intact parent"),
    "C11a": ("C11", "load_raw_delta drops an empty info object", "commit(Some({})) and a second replica receiving the block through meld (re-serialised without \"i\":{})"),
    "C11b": ("C11", "block index taken from the first (lowest) anchor", "a merge commit on histories of different depth"),
    "C12a": ("C12", "commit collects the staged revisions before the automatic array resolution", "array conflict, commit that does not touch the array, later array edit, then reload/reopen"),
    "C12b": ("C12", "array edit scripts are diffed against the merged order", "two replicas with concurrent array edits, meld+refresh, commit"),
    "C13a": ("C13", "get_anchors drops the Applied filter when removing referenced blocks", "time travel (descendants loaded but not applied) or a blocked descendant"),
    "C13b": ("C13", "commit registers the block as applied before writing it", "a failing block write; the retry names the phantom block as parent"),
    "C14a": ("C14", "reload_until's walk `break`s on an already applied block", "a multi-head target whose heads share an ancestor that itself has ancestors"),
    "C14b": ("C14", "get_anchors also drops heads referenced by blocks that are not applied", "time travel to heads that already have successors in storage"),
    "C15a": ("C15", "replay_stage rejects an update record whose parent is not yet in the tree", ">=2 staged revisions of one object exported in hash-map order, then discard + replay"),
    "C15b": ("C15", "staging flags cleared before the block write", "a failing block write: unstage/stage/refusals no longer see the changes"),
    "C16a": ("C16", "edit script diffed against the merged view but stored under the winner", "a write to an array that has more than one live leaf"),
    "C16b": ("C16", "array-descriptor cache lock released between lookup and use", "a cached ancestor evicted by a concurrent reconstruction of another array (timing)"),
    "C17a": ("C17", "Deflate wrapper streams ranged reads with read() instead of read_exact()", "stored values > 32 KiB and a slice straddling a decoder block boundary"),
    "C17b": ("C17", "directory backend caches its listing, validated by the root directory mtime", "a second handle writing a key into an existing prefix sub-directory"),
    "C18a": ("C18", "winner chosen by (index, digest) tuples: equal leaves keep hash-map order", "branches converging to identical content from different parents; differs from load to load"),
    "C18b": ("C18", "array-descriptor cache keyed by the digest of the edit script", "two array revisions with identical edit scripts on different bases; depends on cache capacity and scheduling"),
    "C19a": ("C19", "Revision::from treats text starting with '1' as a tail-less first revision", "an object with >= 10 revisions whose identifier is parsed back (reload, meld, API)"),
    "C19b": ("C19", "Ord ignores the tail at equal index", "same index and digest, different parents"),
    "RC02a": ("C02", "check_delta skips the object lookup of a new revision when the block's own packs all verify", "an object deduplicated against a foreign pack whose block has not arrived (pack copied without its block), then delivery without that pack"),
    "RC02b": ("C02", "pack indexer's escape tracking mishandles an escaped backslash before the closing quote", "a string ending in a backslash"),
    "RC04a": ("C04", "rebuild_array_order no longer stops at the nearest full-order ancestor", "a flattened array key that disappears and reappears while one of its old elements lives on in another array"),
    "RC04b": ("C04", "write_object returns early when the digest is in the LRU object cache", "update, unstage, identical content again, then eviction (> 16 other objects) or commit + reopen"),
    "RC10a": ("C10", "digest comparison on raw bytes with zip() and no length check", "an item stored under a proper prefix of its digest (or upper-case hex)"),
    "RC10b": ("C10", "meld keeps its parsed blocks, so refresh never hashes the stored copy", "a damaged local copy of a block, the same block melded from a peer, then refresh"),
    "RC11a": ("C11", "block index = 1 + highest block the replica knows (not highest parent)", "a commit after time travel, or while a blocked block with a higher index is in storage"),
    "RC11b": ("C11", "load_raw_delta drops an empty info object", "commit(Some({})) then meld"),
    "RC13a": ("C13", "commit keeps an already known but unapplied block (entry().or_insert_with)", "after time travel, redoing exactly the edit and metadata an existing pack-less child block recorded (equal block digest)"),
    "RC13b": ("C13", "load_raw_delta drops an empty info object", "commit(Some({})) then reload / meld"),
    "RC14a": ("C14", "step budget 2*blocks+heads on reload_until's ancestor walk", "histories whose blocks average more than two parents (>=3 replicas, full-mesh sync every round)"),
    "RC14b": ("C14", "reload_until re-indexes only the packs named by the loaded history", "an orphan pack (block write failed after the pack write, commit retried) and later time travel"),
    "RC16a": ("C16", "intermediate array versions cached under the wrong revision", "a deleted or snapshot revision between the requested revision and the nearest cached ancestor; shows on a later walk"),
    "RC16b": ("C16", "array-descriptor cache mutex released between check and use", "concurrent reconstruction evicting the cached ancestor (timing)"),
    "RC18a": ("C18", "write_object returns early when the digest is in the LRU object cache (outcome depends on MELDA_DATA_CACHE_CAP)", "unstage, identical content again, commit; reopened replica"),
    "RC18b": ("C18", "leaf cache becomes a HashSet: merge order follows hash order", "three or more concurrent versions of one array"),
    "RC01a": ("C01", "refresh re-examines blocked blocks only when new packs arrived", "a child block loaded before its pack-less parent (deletion-only commit), the parent arriving in a refresh that brings no pack"),
    "RC01b": ("C01", "pack scanner treats a quote as escaped when the previous byte is a backslash", "a string ending in a backslash"),
    "RC03a": ("C03", "write_object skips objects still in the LRU object cache", "update, unstage, identical content again before 16 other objects evict it, commit, reopen"),
    "RC03b": ("C03", "block validation forgets revisions whose digest is a character code", "a commit containing a pure character object {\"#\": \"68\"}; only a reopened replica is affected (patch rebased onto fix 326db30)"),
    "RC05a": ("C05", "same-index tie-break compares digest then tail instead of the identifier text", "one digest a strict prefix of the other ('d' vs 'd4...'): concurrent delete and update"),
    "RC05b": ("C05", "unstage skips validate() when every cached leaf is still present", "staged resolution markers only: resolve_as(current winner) then unstage"),
    "RC06a": ("C06", "merge fold skips a leaf whose digest equals the base's", "two branches whose last edit scripts are byte-identical (both prepend the same element / pop the head)"),
    "RC06b": ("C06", "merged order cached per (base revision, leaf count)", "read with >=2 leaves, a further edit on a branch that keeps losing, read again on the same replica"),
    "RC07a": ("C07", "partial_cmp compares fields while cmp compares text; resolve_as seals all but the LAST leaf of the ordered set", "deletion vs update at the same index where the update's digest starts 'd' + digit; resolving in favour of the current winner"),
    "RC07b": ("C07", "the 'chosen leaf is a deletion' case moved into update_object and recognised by value", "an array descriptor whose chosen leaf is a deletion (one replica removed the list, another edited it)"),
    "RC08a": ("C08", "meld write-locks the destination adapter for the whole transfer", "two Melda handles on the same adapter, the other knowing an item this one has not loaded"),
    "RC08b": ("C08", "refresh step 4 as `if let Status::Blocked = delta.read()...status { delta.write() }`", "a second refresh while a blocked block exists"),
    "RC09a": ("C09", "check_delta checks object digests only for blocks that list packs", "a pack-less block (retry after a failed block write) reaching another storage without the orphan pack (meld interrupted)"),
    "RC09b": ("C09", "DataStorage::pack indexes the new pack before writing it", "a failed pack write followed by unstage + identical redo, or > 16 staged objects"),
    "RC12a": ("C12", "resolve_as takes the 'is a deletion' flag from the object read back", "an array descriptor in conflict whose winner is a deletion, then commit (auto-resolution resurrects the list)"),
    "RC12b": ("C12", "pack offsets off by one for every object but the first", "re-reading after commit an object evicted from the object cache (cap 1-3, or > 16 objects)"),
    "RC15a": ("C15", "DataStorage::pack indexes the new pack before writing it", "failed pack write, then export / unstage / replay: the replayed stage has records but no objects"),
    "RC15b": ("C15", "replay_stage inserts creation records through entry().or_insert_with", "a staged creation record for an identifier that is still known at replay time (create_object on an existing id; replay onto a newer state)"),
    "RC17a": ("C17", "Deflate wrapper fills ranged reads with a single read()", "a slice ending beyond what the first 32 KiB of compressed input inflate to"),
    "RC17b": ("C17", "Deflate wrapper remembers keys as stored before the backend write", "a refused backend write followed by a retry of the same key through the same wrapper"),
    "RC19a": ("C19", "an unanchored '1-<digest>' pattern tried first in Revision::from", "an index of two or more digits ending in 1 (11, 21, ...)"),
    "RC19b": ("C19", "stage_full_snapshot derives the new identifier from the first diff leaf instead of the winner", "stage_full_snapshot while the array has two or more live leaves"),
    "X-F18revert": ("C03", "revert of fix 1986a71 (finding F18)", "a value or commit metadata nested deeper than ~126 levels, then reopen / cache eviction / meld"),
    "X-F1revert": ("C08", "revert of fix 1f69feb (finding F1)", "commit with a flattened array in conflict"),
}


def main():
    root = "/verif/seeded"
    for d in sorted(glob.glob(root + "/*")):
        name = os.path.basename(d)
        if not os.path.isdir(d):
            continue
        conf = open(d + "/confirm.txt", errors="replace").read() if os.path.exists(d + "/confirm.txt") else ""
        det = open(d + "/detect.txt", errors="replace").read() if os.path.exists(d + "/detect.txt") else ""
        caught, ran, first = [], [], {}
        cur = None
        for l in det.splitlines():
            m = re.match(r"## (\S+) (C\d+) violations=(\d+)", l)
            if m:
                cur = m.group(2)
                ran.append(cur)
                if int(m.group(3)) > 0:
                    caught.append(cur)
                continue
            m = re.match(r"\s+(C\d+/\S+) ::", l)
            if m and cur and cur not in first:
                first[cur] = m.group(1)
        if name in NEEDS:
            prop, what, needs = NEEDS[name]
            origin = ("independent sub-agent (round 2: asked for triggers that randomised testing is unlikely to hit)" if name.startswith("R") else "independent sub-agent given only the property text and a scratch worktree") if not name.startswith("X-") else "own: revert of a fix commit"
        else:
            notes = open(d + "/notes.md").read() if os.path.exists(d + "/notes.md") else ""
            m = re.search(r"Property: (\S+)", notes)
            prop = m.group(1) if m else "?"
            what = notes.strip().splitlines()[-1] if notes.strip() else ""
            needs = "see notes.md"
            origin = "own seeded change (not independent)"
        meta = {
            "id": name, "breaks_property": prop, "change": what, "needs_to_manifest": needs, "origin": origin,
            "confirmed": {
                "existing_tests_pass_with_change": "patched lib: test result: ok" in conf,
                "demo_fails_with_change": "patched demo: test result: FAILED" in conf if "patched demo" in conf else None,
                "demo_passes_without_change": "clean demo : test result: ok" in conf if "clean demo" in conf else None,
                "how": "tools/confirm_seed.sh in the scratch worktree (clean tree: demo; patched tree: cargo test --offline --lib, --doc, demo); log in confirm.txt",
            },
            "detection": {
                "how": "tools/mutant.sh: scratch worktree of /repo HEAD + patch, private copy of the harness, quick tier of the listed checks; log in detect.txt",
                "checks_run": ran, "caught_by": caught, "first_signature_per_check": first,
            },
        }
        json.dump(meta, open(d + "/meta.json", "w"), indent=1, ensure_ascii=False)
    print("meta written")


if __name__ == "__main__":
    main()
