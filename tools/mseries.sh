#!/bin/bash
# detection runs for the own (M-) seeded changes: the checks of the properties named in notes.md
for d in /verif/seeded/M-*; do
  n=$(basename $d)
  props=$(grep "^Property:" $d/notes.md | sed 's/Property: //; s/,/ /g')
  /verif/tools/mutant.sh $n $d/patch.diff $props > $d/detect.txt 2>&1
done
echo MDONE
