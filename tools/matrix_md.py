#!/usr/bin/env python3
"""Regenerates the table of section 11 of DESIGN.md from seeded/*/meta.json."""
import json, glob, os, re
rows = []
for f in sorted(glob.glob("/verif/seeded/*/meta.json")):
    m = json.load(open(f))
    c = m["confirmed"]
    conf = "yes" if c["existing_tests_pass_with_change"] and (c["demo_fails_with_change"] in (True, None)) else "NO"
    own = m["breaks_property"].split(",")
    caught = m["detection"]["caught_by"]
    own_hit = [p for p in own if p in caught]
    sig = "; ".join("%s" % m["detection"]["first_signature_per_check"].get(p, "") for p in own_hit[:2])
    rows.append("| %s | %s | %s | %s | %s | %s |" % (m["id"], m["breaks_property"], m["change"].replace("|", "/"), m["needs_to_manifest"].replace("|", "/"),
                                                    ("**" + ",".join(own_hit) + "**" if own_hit else "**none of its own**") + (" (" + sig + ")" if sig else ""),
                                                    ",".join(p for p in caught if p not in own) or "-"))
table = "| id | breaks | change | needs | caught by its own check (first signature) | also caught by |\n|---|---|---|---|---|---|\n" + "\n".join(rows) + "\n"
p = "/verif/DESIGN.md"
s = open(p).read()
a, b = "<!-- MATRIX-BEGIN -->", "<!-- MATRIX-END -->"
if a in s:
    s = s[:s.index(a) + len(a)] + "\n" + table + s[s.index(b):]
    open(p, "w").write(s)
    print("DESIGN.md table updated:", len(rows), "rows")
else:
    print(table)
