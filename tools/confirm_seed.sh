#!/bin/bash
# Confirms a seeded change in its scratch worktree: clean tree -> demo passes; patched tree -> the
# existing tests pass and the demo fails.   usage: confirm_seed.sh <worktree> <a|b>
wt=$1; v=$2
cd "$wt" || exit 2
export CARGO_NET_OFFLINE=true
git checkout -q -- src
clean_demo=$(cargo test --offline --test demo_$v 2>&1 | grep -E "^test result" | head -1)
git apply seeded/$v/patch.diff || { echo "PATCH DOES NOT APPLY"; exit 1; }
lib=$(cargo test --offline --lib 2>&1 | grep -E "^test result" | head -1)
doc=$(cargo test --offline --doc 2>&1 | grep -E "^test result" | head -1)
mut_demo=$(cargo test --offline --test demo_$v 2>&1 | grep -E "^test result" | head -1)
files=$(git diff --stat -- . | tail -1)
git checkout -q -- src
echo "clean demo : $clean_demo"
echo "patched lib: $lib"
echo "patched doc: $doc"
echo "patched demo: $mut_demo"
echo "diff: $files"
