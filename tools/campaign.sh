#!/bin/bash
# final detection campaign: every seeded change x all 19 quick checks, with the current harness
run_one() {
  d=/verif/seeded/$1
  /verif/tools/mutant.sh $1 $d/patch.diff > $d/detect.txt 2>&1
  echo "done $1"
}
export -f run_one
ls /verif/seeded | grep -E "^(C[0-9]+[ab]|X-)" | xargs -P 3 -I{} bash -c 'run_one {}'
echo CAMPAIGN-DONE
