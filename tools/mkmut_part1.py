import subprocess,sys,os
W='/tmp/mgen'
def mut(name, file, old, new, prop, why, count=1):
    p=os.path.join(W,file); s=open(p).read()
    assert s.count(old)==count, (name, s.count(old))
    open(p,'w').write(s.replace(old,new))
    d=subprocess.run(['git','diff','--','src'],cwd=W,capture_output=True,text=True).stdout
    subprocess.run(['git','checkout','-q','--','src'],cwd=W)
    out='/verif/seeded/M-'+name; os.makedirs(out,exist_ok=True)
    open(out+'/patch.diff','w').write(d)
    open(out+'/notes.md','w').write("Own seeded change (not from an independent sub-agent).\nProperty: %s\n%s\n"%(prop,why))
    print(name, len(d.splitlines()))
# C01/C18 hash-order merge fold
mut('hashorder-fold','src/melda.rs','''            for l in leafs {
                let leaf_order = self.rebuild_array_order(l, rt)?;''','''            let hs: HashSet<&Revision> = leafs.iter().collect();
            for l in hs {
                let leaf_order = self.rebuild_array_order(l, rt)?;''','C01,C18','merge fold iterates the leaves in hash order instead of the ordered leaf set')
# C02 drop object check
mut('no-object-check','src/melda.rs','''                if !data.is_readable_and_valid_revision(r) {
                    delta_w.status = Status::Blocked;
                    return Status::Blocked;
                }
''','','C02','check_delta no longer checks that the new revision\'s object is readable')
# C02 drop pack check
mut('no-pack-check','src/melda.rs','''                if data.try_load_pack(p).is_err() {
                    delta_w.status = Status::Blocked;
                    return Status::Blocked;
                }''','''                let _ = data.try_load_pack(p);''','C02,C10','check_delta ignores missing/invalid packs listed by the block')
# C03 off by one offsets
mut('pack-offset','src/datastorage.rs','''                    let count = offset + 1 - obj_start;''','''                    let count = offset - obj_start;''','C03,C10','re-indexed objects are one byte short')
# C04 skip deletion
mut('no-delete-vanished','src/melda.rs','''            .filter(|(uuid, _)| !extracted_objects.contains_key(*uuid))''','''            .filter(|(uuid, _)| !extracted_objects.contains_key(*uuid) && !is_array_descriptor(uuid) && uuid.len() < 3)''','C04','update only deletes vanished objects with short ids (others linger)')
# C05 markers as leaves
mut('marker-leaf','src/revisiontree.rs','''            if r.is_resolved() {
                // resolved revisions cannot be leafs
                continue;
            }
''','','C05,C07','resolution markers may be leaves')
# C05 skip root reachability
mut('no-reachability','src/revisiontree.rs','''            if self.is_valid_cached(r, &mut validity_cache) {''','''            if self.is_valid_cached(r, &mut validity_cache) || r.index() > 1 {''','C05','dangling subtrees count as live')
# C06 merge insertion branch
mut('merge-branch','src/utils.rs','''                    ins_pos_in_n += 1;
                    order_n.insert(ins_pos_in_n, t.clone());''','''                    order_n.insert(ins_pos_in_n, t.clone());
                    ins_pos_in_n += 1;''','C06','insert before instead of after the insertion point')
# C07 skip sealing
mut('no-seal','src/melda.rs','''            if r != winner {
                let resolved = Revision::new_resolved(&r);''','''            if r != winner && r.index() < 2 {
                let resolved = Revision::new_resolved(&r);''','C07','losing leaves with index >= 2 are not sealed')
# C09 block before pack
mut('block-before-pack','src/datastorage.rs','''        let adapter = self.adapter.write().unwrap();
        adapter.write_object(&pack_key, buf.as_slice())?;
        drop(adapter);
        index_map.iter()''','''        self.pending_pack = Some((pack_key.clone(), buf.clone()));
        index_map.iter()''','C09','pack write deferred until after the block write')
