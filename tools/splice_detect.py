#!/usr/bin/env python3
"""Replaces the block of one check in seeded/<id>/detect.txt by the output of a later tools/mutant.sh run
(used when an oracle was re-labelled and the detection of that check was repeated).
   usage: splice_detect.py <seed id> <new mutant.sh output file> [note]"""
import re, sys
seed, newf = sys.argv[1], sys.argv[2]
note = sys.argv[3] if len(sys.argv) > 3 else ""
p = "/verif/seeded/%s/detect.txt" % seed
old = re.split(r"(?m)^(?=## )", open(p, errors="replace").read())
new = [b for b in re.split(r"(?m)^(?=## )", open(newf, errors="replace").read()) if b.startswith("## ")]
for nb in new:
    head = " ".join(nb.split()[:3])
    if note:
        nb = nb.rstrip("\n") + "\n(" + note + ")\n"
    hit = False
    for i, b in enumerate(old):
        if b.startswith(head + " "):
            old[i] = nb
            hit = True
    if not hit:
        old.append(nb)
open(p, "w").write("".join(old))
