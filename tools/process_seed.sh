#!/bin/bash
# confirm + import + detect for the two seeded changes an agent left in /tmp/wt-<ID>
id=$1; shift; checks="$@"
for v in a b; do
  d=/verif/seeded/${id}${v}; mkdir -p $d
  cp /tmp/wt-$id/seeded/$v/patch.diff /tmp/wt-$id/seeded/$v/demo.rs /tmp/wt-$id/seeded/$v/notes.md $d/ 2>/dev/null
  /verif/tools/confirm_seed.sh /tmp/wt-$id $v > $d/confirm.txt 2>&1
  /verif/tools/mutant.sh ${id}${v} $d/patch.diff $checks > $d/detect.txt 2>&1
done
echo "done $id"
