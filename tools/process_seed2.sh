#!/bin/bash
# round 2: confirm + import + detect for the changes an agent left in /tmp/wt2-<ID>  (ids R<ID>a / R<ID>b)
id=$1; shift; checks="$@"
for v in a b; do
  d=/verif/seeded/R${id}${v}; mkdir -p $d
  cp /tmp/wt2-$id/seeded/$v/patch.diff /tmp/wt2-$id/seeded/$v/demo.rs /tmp/wt2-$id/seeded/$v/notes.md $d/ 2>/dev/null
  /verif/tools/confirm_seed.sh /tmp/wt2-$id $v > $d/confirm.txt 2>&1
  /verif/tools/mutant.sh R${id}${v} $d/patch.diff $checks > $d/detect.txt 2>&1
done
echo "done R$id"
