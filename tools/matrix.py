import glob,re,os
rows=[]
for d in sorted(glob.glob('/verif/seeded/*')):
    f=d+'/detect.txt'
    if not os.path.exists(f): continue
    name=os.path.basename(d)
    hit=[]; inc=[]
    for l in open(f, errors='replace'):
        m=re.match(r'## (\S+) (C\d+) violations=(\d+)',l)
        if m and int(m.group(3))>0: hit.append(m.group(2))
        if 'INCONCLUSIVE' in l: inc.append(l.split('property=')[1][:3])
    conf=open(d+'/confirm.txt').read() if os.path.exists(d+'/confirm.txt') else ''
    ok = 'patched demo: test result: FAILED' in conf and 'clean demo : test result: ok' in conf and 'patched lib: test result: ok' in conf
    rows.append((name, ok, hit, inc))
for r in rows: print("%-12s confirmed=%-5s caught_by=%s inconclusive=%s"%(r[0],r[1],",".join(r[2]) or "NONE",",".join(r[3])))
