#!/bin/bash
# Offline build of the monitoring harness against /repo's current working tree.
set -e
cd "$(dirname "$0")"
exec ./check --build-only
