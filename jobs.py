"""Workload table of the orchestrator: which harness modes decide which property."""
import json, os, subprocess, time

THREADS = [{"RAYON_NUM_THREADS": str(n)} for n in (1, 2, 3, 4, 2, 1, 8, 2)]
THREADS_WIDE = [{"RAYON_NUM_THREADS": str(n)} for n in (1, 2, 3, 4, 8, 16, 5, 2)]

ASSUME_COMMON = [
    "decides only the executions produced: sampled histories of <= 4 replicas and <= 60 operations, documents over small identifier pools",
    "SHA-256 and 7-hex-digit revision tails are treated as collision free",
    "the Solid backend is not exercised (no network)",
]


def engine(name, profile, rule, n, **kw):
    j = {"name": name, "mode": "engine", "args": {"profile": profile, "rule": rule}, "n": n, "env_by_shard": THREADS}
    j.update(kw)
    return j


CHECKS = {
    "C03": {
        "level": "exploration",
        "floor": 20,
        "rule": "engine histories (profiles content/general/lowlevel): after every commit -> Some on a replica that is not behind, a fresh Melda::new on the same storage must show identical objects/winners/conflicts/revision sets/document/heads/blocks; "
                "reopen ops compare with the last clean state. non-trivial = the history committed >=2 revisions of one object in one commit, or its first commit carried an update record; distinct = op-kind sequence x feature vector",
        "assumptions": ASSUME_COMMON,
        "jobs": [engine("content", "content", "C03", (640, 40000)), engine("general", "general", "C03", (320, 20000)), engine("lowlevel", "lowlevel", "C03", (160, 8000))],
    },
}


def run_external(job, root, workdir, seed, tier, binpath):
    raise NotImplementedError
