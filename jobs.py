"""Workload table of the orchestrator: which harness modes decide which property."""
import json, os, subprocess, time, shutil, re

THREADS = [{"RAYON_NUM_THREADS": str(n)} for n in (1, 2, 3, 4, 2, 1, 8, 2)]
THREADS_WIDE = [{"RAYON_NUM_THREADS": str(n)} for n in (1, 2, 3, 4, 8, 16, 5, 2)]

ASSUME_COMMON = [
    "decides only the executions produced: sampled histories of <= 4 replicas and <= 140 operations, documents over small identifier pools",
    "SHA-256 and 7-hex-digit revision tails are treated as collision free",
    "the Solid backend is not exercised (no network)",
]
DISTINCT = " distinct = op-kind sequence x feature vector of the case."


def engine(name, profile, rule, n, **kw):
    j = {"name": name, "mode": "engine", "args": {"profile": profile, "rule": rule}, "n": n, "env_by_shard": THREADS}
    extra = kw.pop("args", None)
    if extra:
        j["args"].update(extra)
    j.update(kw)
    return j


def mode(name, m, n, **kw):
    j = {"name": name, "mode": m, "args": {}, "n": n, "env_by_shard": THREADS}
    j.update(kw)
    return j


BACKENDS = ["mem", "mem+flate", "mem+brotli", "fs", "fs+flate", "fs+brotli", "sqlite", "sqlite+flate", "sqlite+brotli", "sqlitemem", "sqlitemem+flate", "sqlitemem+brotli"]

# (RAYON_NUM_THREADS, capshift, permsalt, delay seed)
C18_CONFIGS = [(1, 0, 0, 0), (2, 1, 11, 3), (16, 2, 12, 5), (5, 3, 13, 0), (3, 1, 14, 7), (8, 2, 15, 9),
               (4, 3, 16, 11), (16, 0, 17, 13), (1, 2, 18, 0), (2, 3, 19, 15), (7, 1, 20, 17), (12, 2, 21, 19)]


def c18_jobs():
    out = []
    for k, (thr, cs, ps, dl) in enumerate(C18_CONFIGS):
        out.append({"name": "cfg%d" % k, "mode": "engine", "n": (96, 1600), "shards": 2 if k >= 6 else 3,
                    "args": {"profile": "allops", "rule": "any", "capshift": cs, "permsalt": ps, "delay": dl, "hooktrace": 1, "fulldigests": 1},
                    "env": {"RAYON_NUM_THREADS": str(thr)}, "config": {"RAYON_NUM_THREADS": thr, "capshift": cs, "permsalt": ps, "delay_seed": dl},
                    "tier_min": "quick" if k < 6 else "thorough"})
    return out


CHECKS = {
    "C01": {
        "level": "exploration", "floor": 20,
        "rule": "conflict-heavy and branching histories on 2-4 replicas end with an exchange to fixpoint (route a: all live replicas must show the same objects/winners/conflicts/revision sets/document/heads; whether they also list the same keys is only counted); the final item set is then "
                "delivered to fresh observers by meld into an empty replica (b), file copy with one refresh per file (c), random batches (d), copy-all then open (e), (c)/(e) under permuted listings (f), and a random partition between two empty replicas that then "
                "exchange to fixpoint; every route must equal the live replica and the reference model computed from the raw files. The two-phase array-merge histories of C06 are run here too for their two route oracles (replicas that merged incrementally read the same arrays as each other and as a fresh load). non-trivial = >=2 commits, some object had >=2 live leaves, and some route delivered a block before one of its parents or packs." + DISTINCT,
        "assumptions": ASSUME_COMMON + ["array order is compared between replicas/routes, not against a model of the merge"],
        "jobs": [mode("routes-conflict", "c01", (1280, 24000), args={"profile": "conflict"}), mode("routes-graph", "c01", (640, 12000), args={"profile": "graph"}),
                 mode("routes-lowlevel", "c01", (320, 6000), args={"profile": "lowlevel"}),
                 mode("array-merges", "c06sys", (4000, 40000))],
    },
    "C02": {
        "level": "exploration", "floor": 10,
        "rule": "item files of finished multi-replica histories are delivered one at a time to an open replica in adversarial orders (blocks newest-first then packs; packs then blocks; rotated) and random permutations, with a refresh after every file; for every prefix: "
                "per-block status (hook) == membership in the reference model's causally complete closure, objects/winners/conflicts/heads == reference(closure), incremental state == fresh Melda::new on the same storage; after the last file == the source replica. "
                "Engine histories with partial file copies add status-vs-closure checks after every op. A dedicated scenario delivers a pack-less block (its object was deduplicated against a pack whose block the author did not hold) to a replica that knows the content only from its object cache (staged, then unstaged) or from an unreferenced staged object: the block must stay held back and the live replica must equal a fresh one. non-trivial = some prefix held back a block that a later prefix applied." + DISTINCT,
        "assumptions": ASSUME_COMMON,
        "jobs": [mode("delivery-conflict", "c02", (480, 6000), args={"profile": "conflict", "steps": 36}), mode("delivery-graph", "c02", (288, 4000), args={"profile": "graph", "steps": 40}),
                 engine("partial-copies", "graph", "C02", (1280, 30000)), mode("cache-only-objects", "c02cache", (480, 12000))],
    },
    "C03": {
        "level": "exploration", "floor": 20,
        "rule": "engine histories (profiles content/general/lowlevel/long; memory backend, plus the directory backend in quick and Deflate-over-directory / Brotli-over-SQLite in thorough): after every commit -> Some on a replica that is not behind, a fresh Melda::new on the same storage must show identical objects/winners/conflicts/revision sets/document/heads/blocks; "
                "reopen ops compare with the last clean state. A dedicated scenario nests a value, or the commit metadata, 1-430 levels deep (objects, arrays, mixed; in the root object, in an array element, under a flattened key), commits, reopens, commits a second version and melds to a peer. non-trivial = the history committed >=2 revisions of one object in one commit, or its first commit carried an update record." + DISTINCT,
        "assumptions": ASSUME_COMMON,
        "jobs": [engine("content", "content", "C03", (1280, 60000)), engine("general", "general", "C03", (640, 30000)), engine("lowlevel", "lowlevel", "C03", (240, 12000)), engine("wide", "wide", "C03", (160, 8000)), engine("long", "long", "C03", (48, 1600)),
                 engine("content-dir", "content", "C03", (96, 4000), args={"backend": "fs"}),
                 mode("deep-nesting", "c03deep", (320, 16000)),
                 engine("bigpacks-deflate", "bigdoc", "any", (32, 800), args={"backend": "mem+flate"}),
                 engine("bigpacks-brotli-dir", "bigdoc", "any", (16, 400), args={"backend": "fs+brotli"}),
                 engine("content-dir-deflate", "content", "C03", (0, 3000), args={"backend": "fs+flate"}, tier="thorough"),
                 engine("content-sqlite-brotli", "content", "C03", (0, 3000), args={"backend": "sqlite+brotli"}, tier="thorough")],
    },
    "C04": {
        "level": "exploration", "floor": 20,
        "rule": "every update(D) of every history is followed by read(): when no flattened array was in conflict before the update the serde_json serialisation must equal D with identifiers added to tracked objects, byte for byte; "
                "otherwise the multiset of tracked objects (id, content) must equal D's. The same D is submitted again and state, has_staging and the stage export must not move; commit with nothing staged must return None and write no key. "
                "Generators: hostile strings/ids/numbers, objects moving between arrays, flattened keys appearing/disappearing/changing kind, reverts to older documents. One dedicated case exercises known finding F10. "
                "A fixed list of 21 unusual but valid shapes (every hostile string of the pool as a KEY, scalars / null / empty containers under a flattened key, empty and marker-only keys, flattened keys inside plain objects, extreme numbers, strings that look like revisions or digests, identifiers that look like special digests, 200 kB strings, 3000 elements) is read back after update, commit, reopen and resubmission under two cache configurations. non-trivial = >=2 exact read-backs from a state with history and >=1 meld." + DISTINCT,
        "assumptions": ASSUME_COMMON + ["'!'-leading identifiers are generated for array elements only; the single-object shape is the dedicated F10 case"],
        "jobs": [engine("kind", "kind", "C04", (1280, 60000)), engine("general", "general", "C04", (480, 30000)), engine("conflict", "conflict", "C04", (480, 30000)), engine("wide", "wide", "C04", (320, 16000)), engine("lowlevel", "lowlevel", "C04", (240, 12000)),
                 mode("f10", "c04f10", (1, 1), shards=1), mode("shapes", "c04shapes", (1, 1), shards=1)],
    },
    "C05": {
        "level": "exploration", "floor": 50,
        "rule": "unit: random revision trees (chains crossing index 9->10->100, forks, equal indices, dangling parents, resolution markers, deletions, several roots, char-code/empty digests) inserted into RevisionTree through add (checked after every insertion) and "
                "unvalidated_add+validate, in ALL insertion orders for trees of <=6 revisions and 50 sampled orders above; leaves/winner must equal the rule computed from the (revision,parent) set alone. The comparison rule itself is checked on revision pools (c19unit). "
                "system: in every observation of every history, winner/conflicting/in_conflict == the rule applied to the library's own revision sets and to the trees parsed from the raw block files. "
                "non-trivial (unit) = >=2 live leaves, a marker, an index >=10 or a dangling subtree; (system) = >=2 live leaves seen or an index >= 10." + DISTINCT,
        "assumptions": ASSUME_COMMON,
        "jobs": [mode("trees", "c05unit", (32000, 1200000)), mode("order", "c19unit", (64, 3200)), engine("conflict", "conflict", "C05", (640, 30000)), engine("conflict-8-replicas", "conflict", "C05", (64, 3200), args={"reps": 8, "steps": 100}), engine("long", "long", "C05", (64, 3200)), engine("verylong", "verylong", "C05", (12, 320))],
    },
    "C06": {
        "level": "exploration", "floor": 50,
        "rule": "unit: merge_arrays(m,n) for ALL ordered pairs of duplicate-free sequences over a 5-letter alphabet up to length 5 (quick) / 6 letters up to 6 (thorough), plus random 3-4-way folds as the library folds the ordered leaf set: duplicate-free, set = union, base order kept, "
                "merged order kept when the common elements agree. system: 2-3 replicas branch from a common commit, edit two flattened arrays concurrently (insert/remove/reorder/move between arrays/modify), sync; with leaf orders from the hook: every non-deleted id of some live leaf "
                "occurs exactly once in the whole document, deleted ids nowhere, the winner's order kept, both orders kept for two compatible leaves. non-trivial (system) = >=2 live leaves on an array." + DISTINCT,
        "assumptions": ASSUME_COMMON,
        "jobs": [mode("pairs", "c06unit", (326, 1957)), mode("merges", "c06sys", (40000, 400000))],
    },
    "C07": {
        "level": "exploration", "floor": 20,
        "rule": "at the end of conflict-heavy histories (optionally with an edit staged on top) every conflicted object and EVERY live leaf is resolved on a forked replica (copy of storage + replayed stage): object leaves conflict set; plain objects read as the value at the chosen leaf, "
                "a chosen deletion makes the object deleted and absent from the document; choosing the winner leaves the document unchanged; for arrays the chosen leaf's surviving elements keep their order. Each fork commits and a fresh replica that melds it must show the same state; "
                "two forks that chose different leaves exchange and must converge. In-history resolutions add the same checks. non-trivial = a leaf set of >=3, a deleted leaf chosen, or an array descriptor resolved." + DISTINCT,
        "assumptions": ASSUME_COMMON + ["the merged order produced by resolving an array is not modelled; only the clauses the property states are asserted"],
        "jobs": [mode("forks", "c07", (800, 24000), args={"profile": "conflict"}), mode("forks-lowlevel", "c07", (160, 8000), args={"profile": "lowlevel"}), mode("forks-kind", "c07", (320, 16000), args={"profile": "kind"}), engine("inline", "conflict", "C07", (800, 24000))],
    },
    "C08": {
        "level": "exploration", "floor": 20,
        "rule": "restated for a finite observer: no operation reaches logical quiescence (all threads parked in futex without timeout, no CPU or context-switch progress over 10 samples, CALL without RET on the progress pipe) and none panics or aborts, on well-formed input. "
                "Workload: every public method in every state (commit/refresh/read/resolve/unstage/snapshot/stage/replay/reload_until/low-level object calls while arrays and objects are in conflict and changes are staged), worker pools of 1,2,3,4,5,8,16 threads, seeded 0-200us delays "
                "injected before the per-object locks inside the parallel sections; documents and commit metadata nested 1-430 levels deep. thorough adds Miri (deadlock / data race / UB detection per schedule seed). non-trivial = a commit ran with >=1 flattened array in conflict." + DISTINCT,
        "assumptions": ASSUME_COMMON + ["a livelock that burns CPU forever would be reported inconclusive by the wall-clock watchdog, not as a violation"],
        "jobs": [engine("allops", "allops", "C08", (1920, 120000), env_by_shard=THREADS_WIDE, args_by_shard=[{"delay": d} for d in (0, 3, 5, 0, 7, 9, 11, 13)]),
                 engine("lowlevel", "lowlevel", "C08", (640, 40000), env_by_shard=THREADS_WIDE, args_by_shard=[{"delay": d} for d in (0, 21, 0, 23)]),
                 engine("conflict", "conflict", "C08", (640, 40000), env_by_shard=THREADS_WIDE),
                 engine("allops-8-replicas", "allops", "C08", (64, 3200), env_by_shard=THREADS_WIDE, args={"reps": 8, "steps": 100}),
                 mode("deep-nesting", "c03deep", (320, 16000)),
                 {"name": "miri", "external": "miri", "tier": "thorough", "scripts": 8}],
    },
    "C09": {
        "level": "fault_enumeration", "floor": 10,
        "rule": "per sampled 2-3 replica history (updates, several updates per commit, melds, resolutions): the baseline run records every storage write; then (crash) a snapshot taken before EVERY write is reopened: it must open, equal the reference model of its causally complete closure, and equal "
                "a replica opened on exactly that closure; (fault) the history is re-run once for EVERY single failing write position, every pair of consecutive positions and (for commit writes) every triple; runs whose fault hit a commit's block write (orphan pack, pack-less block after the retry) are crash-enumerated again at every later write boundary of every replica: a failed commit must leave the staged revisions and the document untouched, the retried commit must produce the same per-step "
                "state digests and the same reopened final states as the uninterrupted twin; runs whose fault hit a meld must still reopen to the reference state of their storage. Ordering (pack before block, local writer) is checked on every commit of every engine history, where 6% of the commits also suffer one injected write failure (staging and document must survive, heads must not move). "
                "non-trivial = faults hit both a pack write and a block write of a commit. distinct = write pattern of the history.",
        "assumptions": ASSUME_COMMON + ["each item write is atomic (fully present or absent), as the property assumes; torn files are C10 damage", "meld copies blocks before packs on the unchanged tree; the property covers that by 'blocks whose dependencies did not arrive are ignored', which the crash monitor decides"],
        "jobs": [mode("faults", "c09", (160, 4000)), engine("ordering", "general", "any", (320, 12000))],
    },
    "C10": {
        "level": "fault_enumeration", "floor": 10,
        "rule": "per finished history, for EVERY stored item: delete, empty, truncate to len-1 and two sampled lengths, 8 sampled single-bit flips (thorough: every byte position for items <= 4 KiB); 6 random deletion subsets; about 40 junk injections (bad names, out-of-range indices, wrong hashes, valid hashes of other bytes, intact bytes under near-miss names such as a prefix of the digest or upper-case hex, structurally wrong blocks stored under the correct hash of their bytes); "
                "by two routes (open fresh; refresh on a replica that had loaded an intact prefix). The call must return an error, or the state must equal the reference model of the intact causally complete subset and a replica opened on the intact subset, never panic, and every value returned must hash to the digest in its revision id. "
                "live corruption: bits of an already indexed pack are flipped behind the adapter with MELDA_DATA_CACHE_CAP=1; get_value must be Err or exactly the recorded value. damage between refreshes: a pack is damaged in place after it was indexed and before a held-back block that names it becomes deliverable; that block must never be applied. damaged local copy: a block is damaged locally, the same block is melded from an intact peer, refresh: the live replica must equal the reference state of its own storage and a fresh open. compression wrappers: the stored (compressed) bytes are truncated / emptied / bit-flipped under Deflate and Brotli; decoders must not panic and the result is judged against what the wrapper still decodes. non-trivial = damage hit an item other blocks depend on.",
        "assumptions": ASSUME_COMMON + ["no attempt is made to forge an item whose damaged bytes still hash to its name"],
        "jobs": [mode("damage", "c10", (1280, 8000), args={"profile": "conflict"}), mode("damage-dense", "c10", (0, 400), args={"profile": "conflict", "dense": 1}, tier="thorough")],
    },
    "C11": {
        "level": "exploration", "floor": 20,
        "rule": "online monitor on the instrumented adapter after every operation on every replica: each key is <sha256(bytes)>.pack or <i>-<sha256(bytes)>.delta with i = 1 + max parent index parsed from the bytes; a write to an existing key carries identical bytes; a full scan finds every key seen before with the same hash; "
                "one key has one hash on all replicas (meld's parse-and-reserialise is checked byte for byte). commit(info) draws hostile metadata (nested, 1e300, -0.0, 5e-324, u64::MAX, escapes, control/non-ASCII, 300 keys, keys named like block fields). non-trivial = >=1 meld and >=2 commits." + DISTINCT,
        "assumptions": ASSUME_COMMON,
        "jobs": [engine("general", "general", "C11", (1280, 40000)), engine("conflict", "conflict", "C11", (480, 24000)), engine("wide", "wide", "C11", (160, 8000)), engine("graph", "graph", "C11", (480, 24000))],
    },
    "C12": {
        "level": "exploration", "floor": 20,
        "rule": "serialised read() before vs after commit (incl. its automatic array resolution), stage_full_snapshot, meld alone, and refresh/reload on a replica that is not behind and has nothing staged (for these also full state); a refused refresh/reload must leave everything untouched. "
                "Histories are conflict-heavy with elements removed on one branch and kept on another, staged changes present. non-trivial = a commit or snapshot ran with >=1 flattened array in conflict." + DISTINCT,
        "assumptions": ASSUME_COMMON,
        "jobs": [engine("maint", "maint", "C12", (1600, 60000)), engine("conflict", "conflict", "C12", (480, 30000)), engine("conflict-8-replicas", "conflict", "C12", (48, 2400), args={"reps": 8, "steps": 100}), engine("lowlevel", "lowlevel", "C12", (320, 16000)), engine("kind", "kind", "C12", (640, 30000))],
    },
    "C13": {
        "level": "exploration", "floor": 20,
        "rule": "at each commit -> Some(A): |A| = 1, the adapter log shows exactly one new block, its parsed parents == the heads observed just before, index > every parent's, heads after == A, info as passed. At every observation: applied set (hook) ancestor-closed, heads == applied blocks not named as parent by an applied block "
                "== reference model heads; get_delta's info/parents/packs == what the reference parses from the raw block on every replica holding it. Branching histories with 3-4 replicas, merges of several heads, commits after time travel, partial delivery. A dedicated scenario redoes, from the past, exactly the edit and metadata of an existing pack-less child block, so that the commit reproduces that block byte for byte: it must still become the only head and the next commit must build on it. The deep-nesting scenarios of C03 run here for their metadata oracle (metadata nested up to 430 levels, hostile strings as keys, extreme numbers: get_delta on a reopened replica returns it unchanged). non-trivial = a commit had >=2 parents." + DISTINCT,
        "assumptions": ASSUME_COMMON,
        "jobs": [engine("graph", "graph", "C13", (1600, 60000)), engine("conflict", "conflict", "C13", (480, 30000)), engine("graph-8-replicas", "graph", "C13", (64, 3200), args={"reps": 8, "steps": 100}), mode("verbatim-redo", "c13redo", (320, 16000)), mode("deep-metadata", "c03deep", (320, 16000))],
    },
    "C14": {
        "level": "exploration", "floor": 20,
        "rule": "every replica records (heads -> state) whenever it is clean; reload_until(H) for a recorded H must show that state, heads == H, objects/winners == the reference model restricted to H's ancestors, and Melda::new_until must agree (half of those replicas then refresh(): they must equal a full load of the same storage, reported against C02); reload() afterwards returns to the latest state; half of the travels of an up-to-date replica first go to an ARBITRARY set of 1-3 applied blocks chosen by content-derived keys (not a head set it ever had, so beyond the quantifier: the call must return without aborting and reload() must come back to the latest state; agreement of the state shown with the reference model restricted to the chosen blocks' ancestors, of the heads with the maximal chosen blocks and of new_until is only counted, c14_beyond_quantifier_disagreements); "
                "replicas may also stay in the past and commit from there (sometimes redoing verbatim the edit and metadata of an existing child block). Full-mesh histories (3-4 replicas commit concurrently and synchronise all-to-all every round, so blocks have 3-4 parents) revisit every head set of replica 0. After every op 5 random (object, revision) pairs are looked up: value and parent must equal the first recorded ones and the value must hash to the digest in the revision id. non-trivial = >=1 travel and (a multi-head target or >=5 commits)." + DISTINCT,
        "assumptions": ASSUME_COMMON,
        "jobs": [engine("graph", "graph", "C14", (1600, 60000)), engine("general", "general", "C14", (320, 20000)), engine("long", "long", "C14", (48, 1600)), mode("mesh", "c14mesh", (480, 24000)), engine("verylong", "verylong", "C14", (0, 160), tier="thorough")],
    },
    "C15": {
        "level": "exploration", "floor": 20,
        "rule": "unstage must restore exactly the last committed-or-refreshed observation (state, revision sets with staged flags, heads), leave has_staging false and stage() None; stage -> unstage -> replay_stage must restore state, staged flags and the order-normalised export; commit -> Some leaves nothing staged; "
                "refresh/reload/reload_until with staged revisions must refuse and change nothing (a replica holding only unreferenced staged objects may refresh but must not drop them). Staged sets include creations, update chains, deletions, resurrections, array patches, resolutions, snapshots and low-level object calls. "
                "non-trivial = a round trip with >=3 staged revisions." + DISTINCT,
        "assumptions": ASSUME_COMMON,
        "jobs": [engine("stage", "stage", "C15", (1600, 60000)), engine("lowlevel", "lowlevel", "C15", (480, 30000))],
    },
    "C16": {
        "level": "exploration", "floor": 50,
        "rule": "unit: apply_diff_patch(a, make_diff_patch(a,b)) == b and patch empty iff a == b for ALL ordered pairs of sequences with repetition over 3 letters up to length 5 (quick) / 4 letters up to 6 (thorough), plus random arrays of <=200 elements with block moves, reversals, repeats. "
                "system: chains of 60-120 successive versions of two flattened arrays (remove first repeatedly, empty/refill, reverse, rotate, identical consecutive edit scripts) with commits, snapshots, reopen and peer branches (a second replica edits concurrently and is melded back, so that the chain continues "
                "while the arrays have two live leaves), under MELDA_ARRAYDESCRIPTORS_CACHE_CAP in {1,2,3,16}: read() == last submitted (when no array is in conflict) and, queried in random order, verif_array_order(rev) == the array submitted when rev was created, for every revision ever created on either replica. "
                "non-trivial (system) = chain length >=20 with >=1 reopen." + DISTINCT,
        "assumptions": ASSUME_COMMON,
        "jobs": [mode("pairs", "c16unit", (364, 5461)), mode("chains", "c16chain", (3200, 32000))],
    },
    "C17": {
        "level": "exploration", "floor": 20, "post": "post_c17",
        "rule": "contract: random sequences of write / whole read / non-empty in-range ranged read / list-by-suffix (\"\", .delta, .pack, other, partial suffixes) with empty, 1-byte, 5 kB and 40-270 kB incompressible and compressible values (sweeps of 200-800 byte windows across the large ones), writes through a second handle on the same directory / database, against memory, directory, SQLite file and SQLite in-memory, each plain / Deflate / Brotli, "
                "compared with a first-write-wins map; persistent backends are dropped and reopened mid-sequence and at the end. replica: the same op script (engine 'general') runs over all 12 backends; the per-op state/graph digest sequence must equal the memory baseline, including reopen on a new adapter object. "
                "non-trivial = >=5 keys (contract) / script with >=2 commits compared on all backends." + DISTINCT,
        "assumptions": ASSUME_COMMON + ["keys are item-like names: ASCII, >= 2 characters, no '/', not containing '.flate'/'.brotli'"],
        "jobs": [mode("contract", "c17contract", (240, 3200), args={"ops": 240})] +
                [engine("replica-" + b.replace("+", "-"), "general", "any", (32, 1200), args={"backend": b, "fulldigests": 1, "steps": 30}, shards=2, env={"RAYON_NUM_THREADS": "2"}, env_by_shard=None) for b in BACKENDS] +
                [{"name": "memcheck-sqlite", "external": "memcheck", "tier": "thorough"}],
    },
    "C18": {
        "level": "exploration", "floor": 10, "post": "post_c18",
        "rule": "differential across processes: the same logical op script (profile allops) is executed by 6 (quick) / 12 (thorough) child processes that differ in RAYON_NUM_THREADS (1..16), both cache capacities (rotation of {1,2,3,16}), listing-permutation seed and delay-hook seed, each with fresh RandomState hash seeds; "
                "after every op the state digest (objects, winners, conflicts, revision sets, document, staging) and graph digest (head indices, statuses, parent counts; no block names) are logged and all sequences must be identical. The trace hook records in which order and on which worker the parallel sections "
                "reached their objects; a script counts as non-trivial only if its children showed >=2 distinct interleavings. thorough adds Miri on single-replica scripts. distinct = script index.",
        "assumptions": ASSUME_COMMON,
        "jobs": c18_jobs() + [mode("cache-only-objects", "c02cache", (240, 6000)),{"name": "miri", "external": "miri", "tier": "thorough", "scripts": 12, "regexfree": True}],
    },
    "C19": {
        "level": "exploration", "floor": 20,
        "rule": "unit: pools of 60 revisions built only through the system's constructors (new, new_updated, new_deleted, new_resolved, empty/char-code digests, chains up to index 120): Revision::from(r.to_string()) == r and prints identically, equal Hash when equal, child/deleted/resolved identifiers equal the canonical "
                "formula (index+1, digest, first 7 hex of sha256(parent text)) and depend only on (digest, parent text); for all pairs and triples: exactly one of <,==,>, == iff equal strings, transitivity. system: two replicas in the same state apply the same updates independently -> identical revision sets; after exchanging their "
                "(different) blocks nothing is in conflict and no leaf is added. Every revision string any history exposes must round-trip, and every recorded (revision, parent) pair must satisfy the canonical formula (also for revisions created by snapshots and resolutions while arrays are in conflict). non-trivial = pool with index >=10 and a marker / twin history with two heads after exchange." + DISTINCT,
        "assumptions": ASSUME_COMMON,
        "jobs": [mode("pools", "c19unit", (480, 16000)), mode("twins", "c19twins", (6400, 160000)), engine("roundtrip", "general", "any", (320, 16000)), engine("snapshots-in-conflict", "maint", "any", (480, 16000))],
    },
}


# ------------------------------------------------------------------------------ check-level post-processing
def _group_by_case(records, prefix):
    by = {}
    for j in records:
        if j["job"].startswith(prefix) and "digest_seq" in j:
            by.setdefault(j["case"], {})[j["job"]] = j
    return by


def _first_diff(a, b):
    for k, (x, y) in enumerate(zip(a or [], b or [])):
        if x != y:
            return k
    return min(len(a or []), len(b or []))


def post_c17(spec, records):
    msgs, out = [], list(records)
    by = _group_by_case(records, "replica-")
    compared = 0
    for case, d in sorted(by.items()):
        base = d.get("replica-mem")
        if base is None:
            continue
        for jn, j in d.items():
            j["nontrivial"] = False
        bad = []
        for jn, j in d.items():
            if jn == "replica-mem":
                continue
            compared += 1
            if j["digest_seq"] != base["digest_seq"] or j.get("aborted"):
                k = _first_diff(base.get("digests"), j.get("digests"))
                bad.append("%s differs from memory at op %s (%s)" % (jn, k, (j.get("trace") or ["?"] * (k + 1))[min(k, len(j.get("trace") or ["?"]) - 1)][:120] if j.get("trace") else "?"))
        rec = {"t": "case", "job": "replica-differential", "case": case, "synthetic": True, "verdict": "violated" if bad else "held", "nontrivial": len(d) == len(BACKENDS) and base.get("features", {}).get("commits", 0) >= 2,
               "fp": "script%d" % case, "features": {}, "counters": {"c17_backend_comparisons": len(d) - 1}, "violations": [], "shard": base.get("shard", 0)}
        if bad:
            rec["violations"].append({"prop": "C17", "sig": "C17/replica-state-differs-across-backends", "detail": "; ".join(bad)[:1500]})
            rec["argv"] = None
        out.append(rec)
    return out, msgs, {"replica_scripts_compared_on_all_backends": len(by), "backend_pair_comparisons": compared}


def post_c18(spec, records):
    msgs, out = [], list(records)
    by = _group_by_case(records, "cfg")
    inter_total, scripts_multi = 0, 0
    configs = {j["name"]: j.get("config") for j in spec["jobs"] if j.get("config")}
    for case, d in sorted(by.items()):
        names = sorted(d)
        base = d[names[0]]
        for jn, j in d.items():
            j["nontrivial"] = False
        inters = set(j.get("interleaving") for j in d.values())
        inter_total += len(inters)
        bad = []
        for jn in names[1:]:
            j = d[jn]
            if j["digest_seq"] != base["digest_seq"]:
                k = _first_diff(base.get("digests"), j.get("digests"))
                bad.append("config %s %s differs from %s %s at op %s" % (jn, configs.get(jn), names[0], configs.get(names[0]), k))
        multi = len(inters) >= 2
        scripts_multi += 1 if multi else 0
        rec = {"t": "case", "job": "cross-config", "case": case, "synthetic": True, "verdict": "violated" if bad else "held", "nontrivial": multi and len(d) >= 2 and base.get("features", {}).get("commits", 0) >= 2,
               "fp": "script%d" % case, "features": {}, "counters": {"c18_config_comparisons": len(d) - 1, "c18_distinct_interleavings": len(inters),
                                                                      "c18_hook_events": sum(j.get("hook_events", 0) for j in d.values())}, "violations": [], "shard": base.get("shard", 0)}
        if bad:
            rec["violations"].append({"prop": "C18", "sig": "C18/state-depends-on-configuration", "detail": "; ".join(bad)[:1500]})
        out.append(rec)
    return out, msgs, {"scripts_compared": len(by), "configurations": {k: v for k, v in configs.items()}, "distinct_interleavings_total": inter_total, "scripts_with_2plus_interleavings": scripts_multi}


# ------------------------------------------------------------------------------ external jobs (Miri, memcheck)
def run_external(job, root, workdir, seed, tier, binpath):
    import external
    return external.run(job, root, workdir, seed, tier, binpath)
