//! Small deterministic scripts run natively and under Miri (thorough tier of C08 / C18).
//! `meldamiri free <k>`: single replica, never parses a block name or a revision string
//! (no regex inside the interpreter).  `meldamiri full <k>`: two replicas, conflict, commit
//! with automatic resolution, explicit resolution, refresh.  Prints one digest line per step.
use melda::{adapter::Adapter, melda::Melda, memoryadapter::MemoryAdapter};
use serde_json::{json, Map, Value};
use std::sync::{Arc, RwLock};

struct Rng(u64);
impl Rng {
    fn next(&mut self) -> u64 {
        self.0 = self.0.wrapping_add(0x9E3779B97F4A7C15);
        let mut z = self.0;
        z = (z ^ (z >> 30)).wrapping_mul(0xBF58476D1CE4E5B9);
        z = (z ^ (z >> 27)).wrapping_mul(0x94D049BB133111EB);
        z ^ (z >> 31)
    }
    fn below(&mut self, n: usize) -> usize {
        (self.next() % n as u64) as usize
    }
}
fn mk() -> Melda {
    let a: Box<dyn Adapter> = Box::new(MemoryAdapter::new());
    Melda::new(Arc::new(RwLock::new(a))).unwrap()
}
fn doc(items: &[String], tags: &[String], ver: u64) -> Map<String, Value> {
    let f = |v: &[String]| -> Vec<Value> { v.iter().map(|i| json!({"_id": i, "v": ver % 3, "s": "x}{"})).collect() };
    json!({"items\u{266D}": f(items), "tags\u{266D}": f(tags), "title": ver}).as_object().unwrap().clone()
}
fn edit(r: &mut Rng, a: &mut Vec<String>, b: &mut Vec<String>) {
    for _ in 0..1 + r.below(2) {
        let id = format!("e{}", r.below(6));
        match r.below(4) {
            0 | 1 => {
                if !a.contains(&id) && !b.contains(&id) {
                    let p = r.below(a.len() + 1);
                    a.insert(p, id);
                }
            }
            2 => {
                if !a.is_empty() {
                    let p = r.below(a.len());
                    let x = a.remove(p);
                    if r.below(2) == 0 {
                        b.push(x);
                    }
                }
            }
            _ => a.reverse(),
        }
    }
}
fn digest(m: &Melda) -> String {
    let mut s = String::new();
    for u in m.get_all_objects() {
        s.push_str(&u);
        s.push('=');
        s.push_str(&m.get_winner(&u).unwrap_or_default());
        s.push(';');
    }
    s.push_str(&format!("{:?}", m.in_conflict()));
    s.push_str(&serde_json::to_string(&m.read(None).unwrap_or_default()).unwrap());
    s.push_str(if m.has_staging() { "S" } else { "-" });
    melda::verif::digest_string(&s)[..16].to_string()
}
fn main() {
    let kind = std::env::args().nth(1).unwrap_or_default();
    let k: u64 = std::env::args().nth(2).and_then(|x| x.parse().ok()).unwrap_or(0);
    let mut r = Rng(k.wrapping_mul(7919) + 13);
    match kind.as_str() {
        "noop" => println!("noop"),
        "free" => {
            let mut m = mk();
            let (mut a, mut b): (Vec<String>, Vec<String>) = (vec![], vec![]);
            for step in 0..6 {
                edit(&mut r, &mut a, &mut b);
                m.update(doc(&a, &b, step)).unwrap();
                println!("step {} update {}", step, digest(&m));
                match r.below(4) {
                    0 => {
                        m.commit(None).unwrap();
                    }
                    1 => {
                        m.unstage().unwrap();
                    }
                    2 => {
                        m.stage_full_snapshot().unwrap();
                    }
                    _ => {}
                }
                println!("step {} after {}", step, digest(&m));
            }
        }
        "full" => {
            let m1 = mk();
            let mut m2 = mk();
            let (mut a, mut b): (Vec<String>, Vec<String>) = (vec!["e0".into(), "e1".into()], vec![]);
            m1.update(doc(&a, &b, 0)).unwrap();
            m1.commit(None).unwrap();
            m2.meld(&m1).unwrap();
            m2.refresh().unwrap();
            println!("synced {} {}", digest(&m1), digest(&m2));
            let (mut a2, mut b2) = (a.clone(), b.clone());
            edit(&mut r, &mut a, &mut b);
            a.push("e9".into());
            m1.update(doc(&a, &b, 1)).unwrap();
            m1.commit(None).unwrap();
            edit(&mut r, &mut a2, &mut b2);
            a2.insert(0, "e8".into());
            m2.update(doc(&a2, &b2, 2)).unwrap();
            m2.commit(None).unwrap();
            m2.meld(&m1).unwrap();
            m2.refresh().unwrap();
            println!("conflicted {}", digest(&m2));
            a2.push("e7".into());
            m2.update(doc(&a2, &b2, 3)).unwrap();
            let c = m2.commit(None).unwrap();
            println!("committed in conflict {} {}", c.is_some(), digest(&m2));
            for u in m2.in_conflict() {
                let w = m2.get_winner(&u).unwrap();
                m2.resolve_as(&u, &w).unwrap();
            }
            println!("resolved {}", digest(&m2));
            m2.commit(None).unwrap();
            let mut m1 = m1;
            m1.meld(&m2).unwrap();
            m1.refresh().unwrap();
            println!("final {} {}", digest(&m1), digest(&m2));
        }
        "bigarray" => {
            // probe only: very large flattened arrays
            let n: usize = k as usize;
            let m = mk();
            let a: Vec<String> = (0..n).map(|i| format!("x{}", i)).collect();
            let t0 = std::time::Instant::now();
            m.update(doc(&a, &[], 0)).unwrap();
            m.commit(None).unwrap();
            let mut b = a.clone();
            b.reverse();
            m.update(doc(&b, &[], 1)).unwrap();
            m.commit(None).unwrap();
            let mut c = b.clone();
            c.rotate_left(n / 3);
            c.truncate(n - 7);
            m.update(doc(&c, &[], 2)).unwrap();
            let rd = m.read(None).unwrap();
            let got: Vec<String> = rd["items\u{266D}"].as_array().unwrap().iter().map(|x| x["_id"].as_str().unwrap().to_string()).collect();
            println!("n={} ok={} elapsed={:?}", n, got == c, t0.elapsed());
        }
        "cacheprobe" => {
            // probe only: does a block become applicable because its object happens to sit in the
            // replica's object cache although no stored pack holds it?
            use std::sync::{Arc, RwLock};
            let mkad = || -> Arc<RwLock<Box<dyn Adapter>>> { let a: Box<dyn Adapter> = Box::new(MemoryAdapter::new()); Arc::new(RwLock::new(a)) };
            // r1 commits an object with content c
            let a1 = mkad();
            let r1 = Melda::new(a1.clone()).unwrap();
            let c = json!({"v": 1, "w": "same content"}).as_object().unwrap().clone();
            r1.create_object("x", c.clone()).unwrap();
            r1.commit(None).unwrap();
            let p1: Vec<String> = a1.read().unwrap().list_objects(".pack").unwrap();
            // r2 holds only r1's pack (no block), creates another object with the same content: deduplicated, pack-less block
            let a2 = mkad();
            {
                let g = a2.read().unwrap();
                let k = format!("{}.pack", p1[0]);
                g.write_object(&k, &a1.read().unwrap().read_object(&k, 0, 0).unwrap()).unwrap();
            }
            let r2 = Melda::new(a2.clone()).unwrap();
            r2.create_object("y", c.clone()).unwrap();
            r2.commit(None).unwrap();
            let b2: Vec<String> = a2.read().unwrap().list_objects(".delta").unwrap();
            println!("r2 block {:?} bytes {}", b2, String::from_utf8_lossy(&a2.read().unwrap().read_object(&format!("{}.delta", b2[0]), 0, 0).unwrap()));
            // r0 once staged the same content and discarded it; then receives only r2's block
            let a0 = mkad();
            let mut r0 = Melda::new(a0.clone()).unwrap();
            r0.create_object("z", c.clone()).unwrap();
            r0.unstage().unwrap();
            {
                let g = a0.read().unwrap();
                let k = format!("{}.delta", b2[0]);
                g.write_object(&k, &a2.read().unwrap().read_object(&k, 0, 0).unwrap()).unwrap();
            }
            r0.refresh().unwrap();
            let live = r0.get_all_objects();
            let fresh = Melda::new(a0.clone()).unwrap().get_all_objects();
            println!("live replica objects {:?}; fresh replica on the same storage {:?}", live, fresh);
        }
        "selfmeld" => {
            // probe only (not part of any check): melding a replica into itself
            let m = mk();
            m.update(doc(&["e0".to_string()], &[], 0)).unwrap();
            m.commit(None).unwrap();
            println!("melding into itself...");
            let r = m.meld(&m);
            println!("returned {:?}", r.map(|v| v.len()));
        }
        _ => std::process::exit(2),
    }
}
