//! C09 (crash points and write failures, enumerated per history) and C10 (damaged storage).
use crate::engine::{self, open_with, set_caps, CaseResult, Profile, World};
use crate::gen::{self, sha, DocProfile};
use crate::obs::{guard, observe, read_doc, Obs, Outcome};
use crate::refmodel::{self, Files};
use crate::rng::Rng;
use crate::store::{self, Ad, MonState};
use melda::melda::Melda;
use serde_json::{json, Value};
use std::collections::{BTreeMap, BTreeSet};
use std::sync::Arc;

// ------------------------------------------------------------------------------------ C09
#[derive(Clone, Debug)]
enum SOp {
    Update(usize),
    Commit(usize),
    Meld(usize, usize),
    Resolve(usize, usize, usize),
}

struct Run {
    digests: Vec<String>,
    /// (replica, write index, key, outstanding op)
    writes: Vec<(usize, usize, String, String)>,
    snaps: Vec<(usize, usize, String, Files)>,
    final_reopen: Vec<String>,
    events: Vec<String>,
    viol: Vec<(&'static str, String, String)>,
    fault_hit: Option<String>,
    diverged_by_meld_fault: bool,
}

fn script(seed: u64, case: u64) -> (usize, Vec<SOp>) {
    let mut r = Rng::derive(seed, case, 0xC09);
    let n = 2 + r.below(2);
    let mut ops = vec![];
    for _ in 0..(9 + r.below(9)) {
        let i = r.below(n);
        match r.below(10) {
            0..=3 => {
                ops.push(SOp::Update(i));
                if r.below(3) > 0 {
                    if r.chance(35) {
                        ops.push(SOp::Update(i));
                    }
                    ops.push(SOp::Commit(i));
                }
            }
            4 => ops.push(SOp::Commit(i)),
            5..=7 => {
                let j = (i + 1 + r.below(n - 1)) % n;
                ops.push(SOp::Commit(i));
                ops.push(SOp::Meld(i, j));
            }
            _ => ops.push(SOp::Resolve(i, r.below(8), r.below(8))),
        }
    }
    (n, ops)
}

fn run_script(seed: u64, case: u64, fault: Option<(usize, Vec<usize>)>, snap: bool) -> Run {
    let (n, ops) = script(seed, case);
    let mut r = Rng::derive(seed, case, 0xD09);
    let dp = DocProfile { hostile_ids: false, id_pool: 6, kind_change: false, ..DocProfile::default() };
    let mut out = Run { digests: vec![], writes: vec![], snaps: vec![], final_reopen: vec![], events: vec![], viol: vec![], fault_hit: None, diverged_by_meld_fault: false };
    let caps = (2u32, 2u32);
    let mut reps: Vec<(Ad, Arc<MonState>, Melda)> = vec![];
    for i in 0..n {
        let (ad, st) = store::mon_mem();
        *st.snap.lock().unwrap() = snap;
        if let Some((ri, ks)) = &fault {
            if *ri == i {
                *st.fail_at.lock().unwrap() = ks.clone();
            }
        }
        match open_with(&ad, caps) {
            Outcome::Ok(m) => reps.push((ad, st, m)),
            o => {
                out.viol.push(("C08", "open-empty-failed".into(), o.describe()));
                return out;
            }
        }
    }
    let mut last_doc: Vec<Option<Value>> = vec![None; n];
    let mut seen_writes: Vec<usize> = vec![0; n];
    for (step, op) in ops.iter().enumerate() {
        let opname;
        match op {
            SOp::Update(i) => {
                opname = format!("r{}.update", i);
                let d = match &last_doc[*i] {
                    Some(p) => gen::mutate_doc(&mut r, &dp, p),
                    None => gen::rand_doc(&mut r, &dp),
                };
                last_doc[*i] = Some(d.clone());
                let m = &reps[*i].2;
                let res = guard(|| m.update(d.as_object().unwrap().clone()));
                if !res.is_ok() {
                    out.viol.push(("C08", "update-failed".into(), res.describe()));
                    return out;
                }
            }
            SOp::Commit(i) => {
                opname = format!("r{}.commit", i);
                let mut attempts = 0;
                loop {
                    attempts += 1;
                    let before = observe(&reps[*i].2);
                    let m = &reps[*i].2;
                    let info = json!({"step": step}).as_object().unwrap().clone();
                    let res = guard(|| m.commit(Some(info)));
                    match res {
                        Outcome::Ok(_) => break,
                        Outcome::Err(e) => {
                            out.events.push(format!("step {} r{} commit failed: {}", step, i, e));
                            out.fault_hit = Some("commit".into());
                            let after = observe(&reps[*i].2);
                            // staged changes still present, the document unchanged
                            if !after.has_staging {
                                out.viol.push(("C09", "failed-commit-lost-staging".into(), format!("step {}: {}", step, e)));
                            }
                            if after.doc != before.doc {
                                out.viol.push(("C09", "failed-commit-changed-document".into(), before.diff(&after)));
                            }
                            // auto-resolution may legitimately have been staged by the failed attempt;
                            // everything staged before must still be staged
                            for (u, o) in &before.objects {
                                for (rv, _, st) in &o.revs {
                                    if *st && !after.objects.get(u).map(|x| x.revs.iter().any(|y| &y.0 == rv && y.2)).unwrap_or(false) {
                                        out.viol.push(("C09", "failed-commit-dropped-staged-revision".into(), format!("{} {}", u, rv)));
                                    }
                                }
                            }
                            if attempts >= 4 {
                                out.viol.push(("C09", "commit-retry-keeps-failing-without-injected-fault".into(), e));
                                return out;
                            }
                        }
                        Outcome::Panic(p) => {
                            out.viol.push(("C08", "panic-in-commit".into(), p.clone()));
                            out.viol.push(("C09", "commit-panicked-under-write-failure".into(), p));
                            return out;
                        }
                    }
                }
            }
            SOp::Meld(i, j) => {
                opname = format!("r{}.meld(r{})+refresh", i, j);
                let (a, b) = if i < j {
                    let (x, y) = reps.split_at_mut(*j);
                    (&mut x[*i], &mut y[0])
                } else {
                    let (x, y) = reps.split_at_mut(*i);
                    (&mut y[0], &mut x[*j])
                };
                let nfail_before = a.1.writes.lock().unwrap().iter().filter(|e| e.injected_fail).count();
                let res = guard(|| {
                    a.2.meld(&b.2)?;
                    a.2.refresh()
                });
                let nfail_after = a.1.writes.lock().unwrap().iter().filter(|e| e.injected_fail).count();
                if nfail_after > nfail_before {
                    out.fault_hit.get_or_insert("meld".into());
                    out.diverged_by_meld_fault = true;
                    out.events.push(format!("step {} r{} meld lost {} writes", step, i, nfail_after - nfail_before));
                }
                match res {
                    Outcome::Ok(()) => {}
                    Outcome::Err(e) => {
                        // refresh refuses with staged changes: commit first in this script, so unexpected
                        out.events.push(format!("step {} meld/refresh err {}", step, e));
                    }
                    Outcome::Panic(p) => {
                        out.viol.push(("C08", "panic-in-meld-refresh".into(), p));
                        return out;
                    }
                }
            }
            SOp::Resolve(i, a, b) => {
                opname = format!("r{}.resolve", i);
                let m = &reps[*i].2;
                let conf: Vec<String> = m.in_conflict().into_iter().collect();
                if !conf.is_empty() {
                    let u = conf[a % conf.len()].clone();
                    if let (Ok(w), Ok(c)) = (m.get_winner(&u), m.get_conflicting(&u)) {
                        let mut l: Vec<String> = c.into_iter().collect();
                        l.push(w);
                        l.sort();
                        let ch = l[b % l.len()].clone();
                        let res = guard(|| m.resolve_as(&u, &ch));
                        if let Outcome::Panic(p) = res {
                            out.viol.push(("C08", "panic-in-resolve".into(), p));
                            return out;
                        }
                        last_doc[*i] = None;
                    }
                }
            }
        }
        for i in 0..n {
            let w = reps[i].1.writes.lock().unwrap();
            for e in w.iter().skip(seen_writes[i]) {
                out.writes.push((i, e.seq, e.key.clone(), opname.clone()));
            }
            seen_writes[i] = w.len();
        }
        let mut s = String::new();
        for rp in &reps {
            s.push_str(&observe(&rp.2).state_digest()[..10]);
        }
        out.digests.push(s);
    }
    // final: everything committed, exchange without faults, reopen every replica
    for i in 0..n {
        *reps[i].1.fail_at.lock().unwrap() = vec![];
        let m = &reps[i].2;
        let _ = guard(|| m.commit(None));
    }
    for _ in 0..3 {
        for i in 0..n {
            for j in 0..n {
                if i != j {
                    let (a, b) = if i < j {
                        let (x, y) = reps.split_at_mut(j);
                        (&mut x[i], &mut y[0])
                    } else {
                        let (x, y) = reps.split_at_mut(i);
                        (&mut y[0], &mut x[j])
                    };
                    let _ = guard(|| {
                        a.2.meld(&b.2)?;
                        a.2.refresh()
                    });
                }
            }
        }
    }
    for i in 0..n {
        let files = store::dump(&reps[i].0);
        let o = match open_with(&store::mem_with(&files), caps) {
            Outcome::Ok(m) => observe(&m),
            oo => {
                out.viol.push(("C09", "final-reopen-failed".into(), oo.describe()));
                continue;
            }
        };
        // no mixture: the reopened state is the reference state of the storage's closure
        let mut tmp = CaseResult::default();
        check_closure(&mut tmp, "C09", "final", &o, &files);
        for v in tmp.violations {
            out.viol.push(("C09", v.sig.split('/').nth(1).unwrap_or("x").to_string(), v.detail));
        }
        out.final_reopen.push(o.s_string());
        if snap {
            let sn = reps[i].1.snaps.lock().unwrap();
            for (idx, key, f) in sn.iter() {
                out.snaps.push((i, *idx, key.clone(), f.clone()));
            }
        }
    }
    out
}

fn check_closure(res: &mut CaseResult, prop: &'static str, tag: &str, o: &Obs, files: &Files) {
    let rs = refmodel::build(files);
    let lo: BTreeSet<String> = o.objects.keys().cloned().collect();
    let ro: BTreeSet<String> = rs.trees.keys().cloned().collect();
    if lo != ro {
        res.viol(prop, &format!("{}-objects-not-those-of-complete-blocks", tag), format!("{:?} vs {:?}", lo, ro));
        return;
    }
    for (u, t) in &rs.trees {
        let (leaves, w) = refmodel::leaves_winner(t);
        let ob = &o.objects[u];
        if w.as_deref() != Some(ob.winner.as_str()) {
            res.viol(prop, &format!("{}-winner-not-that-of-complete-blocks", tag), format!("{}: {} vs {:?}", u, ob.winner, w));
        }
        let lt: BTreeMap<String, Option<String>> = ob.revs.iter().map(|(r, p, _)| (r.clone(), p.clone())).collect();
        if lt != *t {
            res.viol(prop, &format!("{}-revisions-not-those-of-complete-blocks", tag), format!("{}: {:?} vs {:?}", u, lt, t));
        }
        let _ = leaves;
    }
    if o.anchors != rs.heads {
        res.viol(prop, &format!("{}-heads-not-those-of-complete-blocks", tag), format!("{:?} vs {:?}", o.anchors, rs.heads));
    }
}

pub fn c09_case(seed: u64, case: u64) -> CaseResult {
    let mut res = CaseResult::default();
    let base = run_script(seed, case, None, true);
    for (p, s, d) in &base.viol {
        res.viol(p, s, d.clone());
    }
    if !base.viol.is_empty() {
        res.aborted = Some("baseline run of the history failed".into());
        return res;
    }
    let caps = (2u32, 2u32);
    // ---- crash points: a snapshot before every write
    for (ri, idx, key, snap) in &base.snaps {
        res.count("c09_crash_points", 1);
        let opn = base.writes.iter().find(|w| w.0 == *ri && w.1 == *idx).map(|w| w.3.clone()).unwrap_or_default();
        match open_with(&store::mem_with(snap), caps) {
            Outcome::Ok(m) => {
                let o = observe(&m);
                check_closure(&mut res, "C09", "crash", &o, snap);
                let rs = refmodel::build(snap);
                let mut clean = Files::new();
                for st in &rs.complete {
                    let k = format!("{}.delta", st);
                    clean.insert(k.clone(), snap[&k].clone());
                }
                for (k, v) in snap {
                    if k.ends_with(".pack") {
                        clean.insert(k.clone(), v.clone());
                    }
                }
                if let Outcome::Ok(mc) = open_with(&store::mem_with(&clean), caps) {
                    let oc = observe(&mc);
                    if oc.s_string() != o.s_string() {
                        res.viol("C09", "crash-state-is-a-mixture", format!("r{} before write {} ({}) during {}: {}", ri, idx, key, opn, oc.diff(&o)));
                    }
                }
                if rs.complete.len() < rs.blocks.len() {
                    res.feat_add("crash_points_with_incomplete_blocks", 1);
                }
                if !o.doc_ok && !o.objects.is_empty() {
                    res.viol("C09", "crash-state-unreadable", format!("r{} before write {} during {}: {}", ri, idx, opn, o.doc));
                }
            }
            o => res.viol("C09", "reopen-at-crash-point-failed", format!("r{} before write {} ({}) during {}: {}", ri, idx, key, opn, o.describe())),
        }
    }
    // ---- write failures: every single position and every pair of consecutive positions
    let nrep = base.final_reopen.len();
    for ri in 0..nrep {
        let wri: Vec<&(usize, usize, String, String)> = base.writes.iter().filter(|w| w.0 == ri).collect();
        for w in &wri {
            let mut plans = vec![vec![w.1], vec![w.1, w.1 + 1]];
            if w.3.contains("commit") {
                // the retry fails as well, twice
                plans.push(vec![w.1, w.1 + 1, w.1 + 2]);
            }
            for plan in plans {
                res.count("c09_fault_runs", 1);
                // a failed block write leaves an orphan pack and, after the retry, a pack-less block: for those
                // runs every later write boundary (on every replica, melds included) is a crash point too
                let snap_too = plan.len() == 1 && w.3.contains("commit") && w.2.ends_with(".delta");
                let f = run_script(seed, case, Some((ri, plan.clone())), snap_too);
                if snap_too {
                    for (rj, idx, key, snap) in &f.snaps {
                        res.count("c09_crash_points_after_fault", 1);
                        match open_with(&store::mem_with(snap), caps) {
                            Outcome::Ok(m) => {
                                let o = observe(&m);
                                let before = res.violations.len();
                                check_closure(&mut res, "C09", "crash-after-retried-commit", &o, snap);
                                if res.violations.len() > before {
                                    let last = res.violations.len() - 1;
                                    res.violations[last].detail = format!("fault r{}@{:?} ({}), then crash on r{} before write {} ({}): {}", ri, plan, w.3, rj, idx, key, res.violations[last].detail);
                                }
                                if !o.doc_ok && !o.objects.is_empty() && o.objects.contains_key(crate::gen::ROOT) && !o.doc.contains("no_root") {
                                    res.viol("C09", "crash-state-unreadable", format!("fault r{}@{:?}, crash on r{} before write {}: {}", ri, plan, rj, idx, o.doc));
                                }
                            }
                            o => res.viol("C09", "reopen-at-crash-point-failed", format!("fault r{}@{:?}, crash on r{} before write {} ({}): {}", ri, plan, rj, idx, key, o.describe())),
                        }
                    }
                }
                for (p, s, d) in &f.viol {
                    res.viol(p, s, format!("fault r{}@{:?} (baseline write: {} during {}): {}", ri, plan, w.2, w.3, d));
                }
                match f.fault_hit.as_deref() {
                    Some("commit") => {
                        res.feat_add("faults_hit_commit", 1);
                        if w.2.ends_with(".pack") {
                            res.feat_add("faults_hit_pack_write", 1);
                        } else {
                            res.feat_add("faults_hit_block_write", 1);
                        }
                    }
                    Some(_) => res.feat_add("faults_hit_meld", 1),
                    None => res.feat_add("faults_not_reached", 1),
                }
                if !f.diverged_by_meld_fault && f.viol.is_empty() {
                    // a retried commit yields the same durable result as the uninterrupted twin
                    if f.digests != base.digests {
                        let k = f.digests.iter().zip(base.digests.iter()).position(|(a, b)| a != b);
                        res.viol("C09", "retried-commit-differs-from-uninterrupted-twin", format!("fault r{}@{:?} ({} during {}): first differing step {:?}; events {:?}", ri, plan, w.2, w.3, k, f.events));
                    }
                    if f.final_reopen != base.final_reopen {
                        res.viol("C09", "retried-commit-reopens-differently-from-twin", format!("fault r{}@{:?} ({} during {}); events {:?}", ri, plan, w.2, w.3, f.events));
                    }
                    res.count("c09_twin_comparisons", 1);
                }
            }
        }
    }
    res.features.insert("writes".into(), base.writes.len() as u64);
    res.features.insert("replicas".into(), nrep as u64);
    res.opkinds = format!("{:?}", base.writes.iter().map(|w| (w.0, w.2.ends_with(".pack"), w.3.contains("meld"))).collect::<Vec<_>>());
    res.sample = Some(json!({"script": format!("{:?}", script(seed, case).1), "writes": base.writes.iter().map(|w| format!("r{} #{} {} during {}", w.0, w.1, &w.2[..w.2.len().min(24)], w.3)).collect::<Vec<_>>()}));
    res
}
pub fn c09_nontrivial(res: &CaseResult) -> bool {
    res.feat("faults_hit_pack_write") >= 1 && res.feat("faults_hit_block_write") >= 1
}

// ------------------------------------------------------------------------------------ C10
fn valid_name(k: &str, v: &[u8]) -> bool {
    if let Some(st) = k.strip_suffix(".pack") {
        st == sha(v)
    } else if let Some(st) = k.strip_suffix(".delta") {
        st.splitn(2, '-').nth(1) == Some(sha(v).as_str())
    } else {
        true
    }
}

fn judge_damaged(res: &mut CaseResult, what: &str, damaged: &Files, caps: (u32, u32), route_refresh: Option<&Files>) {
    // route 1: open fresh; route 2: a replica that loaded `route_refresh` (intact prefix) then refreshes
    let opened: Outcome<Melda> = match route_refresh {
        None => open_with(&store::mem_with(damaged), caps),
        Some(prefix) => {
            let ad = store::mem_with(prefix);
            match open_with(&ad, caps) {
                Outcome::Ok(mut m) => {
                    for (k, v) in damaged {
                        if !prefix.contains_key(k) {
                            let _ = store::put(&ad, k, v);
                        }
                    }
                    match guard(|| m.refresh()) {
                        Outcome::Ok(()) => Outcome::Ok(m),
                        Outcome::Err(e) => Outcome::Err(e),
                        Outcome::Panic(p) => Outcome::Panic(p),
                    }
                }
                o => o,
            }
        }
    };
    match opened {
        Outcome::Ok(m) => {
            let o = observe(&m);
            let mut effective: Files = damaged.clone();
            if let Some(prefix) = route_refresh {
                // write-once storage: items of the prefix keep their (intact) bytes
                for (k, v) in prefix {
                    effective.insert(k.clone(), v.clone());
                }
            }
            check_closure(res, "C10", "damaged", &o, &effective);
            // differential: a replica on the intact subset only
            let intact: Files = effective.iter().filter(|(k, v)| valid_name(k, v)).map(|(k, v)| (k.clone(), v.clone())).collect();
            if let Outcome::Ok(mi) = open_with(&store::mem_with(&intact), caps) {
                let oi = observe(&mi);
                if oi.s_string() != o.s_string() {
                    res.viol("C10", "state-differs-from-intact-subset", format!("{}: {}", what, oi.diff(&o)));
                }
            }
            if o.doc.starts_with("PANIC") {
                res.viol("C10", "read-panics-on-damaged-storage", format!("{}: {}", what, o.doc));
                res.viol("C08", "panic-in-read", o.doc.clone());
            }
            // every value handed out matches the digest in its revision identifier
            for (u, ob) in &o.objects {
                for (rv, _, _) in &ob.revs {
                    if let Some((_, d, _)) = refmodel::rev_parts(rv) {
                        if refmodel::special(&d) {
                            continue;
                        }
                        if let Outcome::Ok(v) = guard(|| m.get_value(u, Some(rv))) {
                            if sha(serde_json::to_string(&v).unwrap().as_bytes()) != d {
                                res.viol("C10", "altered-content-exposed", format!("{}: {} {} -> {}", what, u, rv, Value::Object(v)));
                            }
                        }
                    }
                }
            }
            res.count("c10_opened_ok", 1);
        }
        Outcome::Err(_) => res.count("c10_reported_error", 1),
        Outcome::Panic(p) => {
            res.viol("C10", "panic-on-damaged-storage", format!("{}: {}", what, p));
            res.viol("C08", "panic-on-damaged-storage", format!("{}: {}", what, p));
        }
    }
    res.count("c10_damages", 1);
}

pub fn c10_case(seed: u64, case: u64, prof: &Profile, dense: bool) -> CaseResult {
    let mut w: World = engine::run_case(seed, case, prof);
    let mut res = std::mem::take(&mut w.res);
    if res.aborted.is_some() || w.reps.iter().any(|r| r.dead) || res.counters.get("c01_final_exchanges").is_none() {
        if res.aborted.is_none() {
            res.aborted = Some("history did not reach the final exchange".into());
        }
        return res;
    }
    let mut r = Rng::derive(seed, case, 0xC10);
    let files = w.files_of(0);
    let caps = (1u32, 1u32);
    let keys: Vec<String> = files.keys().cloned().collect();
    let rs0 = refmodel::build(&files);
    let mut depended_on = 0u64;
    for k in &keys {
        let orig = &files[k];
        let stem = k.rsplit_once('.').map(|x| x.0).unwrap_or(k);
        let has_dependents = rs0.blocks.values().any(|b| b.parents.iter().any(|p| p == stem) || b.packs.iter().any(|p| p == stem));
        let mut variants: Vec<(String, Option<Vec<u8>>)> = vec![("delete".into(), None), ("empty".into(), Some(vec![]))];
        let nflip = if dense && orig.len() <= 4096 { orig.len() } else { 8 };
        for f in 0..nflip {
            let mut v = orig.clone();
            if v.is_empty() {
                break;
            }
            let p = if dense && orig.len() <= 4096 { f } else { r.below(v.len()) };
            let bit = r.below(8);
            v[p] ^= 1 << bit;
            variants.push((format!("flip byte {} bit {}", p, bit), Some(v)));
        }
        if !orig.is_empty() {
            variants.push((format!("truncate to {}", orig.len() - 1), Some(orig[..orig.len() - 1].to_vec())));
            for _ in 0..2 {
                let l = r.below(orig.len());
                variants.push((format!("truncate to {}", l), Some(orig[..l].to_vec())));
            }
        }
        for (name, v) in variants {
            let mut f2 = files.clone();
            f2.remove(k);
            if let Some(v) = v {
                f2.insert(k.clone(), v);
            }
            let what = format!("{} of {}", name, k);
            if has_dependents {
                depended_on += 1;
            }
            judge_damaged(&mut res, &what, &f2, caps, None);
            if r.chance(30) {
                // refresh route: the replica had loaded an intact prefix that does not hold k
                let mut prefix = Files::new();
                for (kk, vv) in &files {
                    if kk != k && r.chance(50) {
                        prefix.insert(kk.clone(), vv.clone());
                    }
                }
                judge_damaged(&mut res, &format!("{} (refresh route)", what), &f2, caps, Some(&prefix));
            }
        }
    }
    // deletion of random subsets
    for _ in 0..6 {
        let mut f2 = files.clone();
        let mut gone = vec![];
        for k in &keys {
            if r.chance(25) {
                f2.remove(k);
                gone.push(k.clone());
            }
        }
        judge_damaged(&mut res, &format!("delete subset {:?}", gone.iter().map(|g| &g[..g.len().min(14)]).collect::<Vec<_>>()), &f2, caps, None);
    }
    // junk injection
    let some_pack = keys.iter().find(|k| k.ends_with(".pack")).cloned();
    let mut junk: Vec<(String, Vec<u8>)> = vec![
        ("zz.delta".into(), b"junk".to_vec()),
        ("1-abc.delta".into(), b"{}".to_vec()),
        ("99999999999-ab.delta".into(), b"{}".to_vec()),
        ("4294967296-ab.delta".into(), b"{}".to_vec()),
        ("5-e3b0c44298fc1c149afbf4c8996fb92427ae41e4649b934ca495991b7852b855.delta".into(), b"".to_vec()),
        ("abc.pack".into(), b"[{}]".to_vec()),
        ("3-.delta".into(), b"x".to_vec()),
        ("-1-ab.delta".into(), b"x".to_vec()),
        ("x.delta".into(), b"{}".to_vec()),
        (".delta".into(), b"{}".to_vec()),
        (".pack".into(), b"[]".to_vec()),
        ("aa.pack".into(), b"".to_vec()),
        ("0-00.delta".into(), b"{\"c\":[]}".to_vec()),
        (format!("{}.pack", "f".repeat(64)), b"[{\"a\":1}]".to_vec()),
        (format!("1-{}.delta", "0".repeat(64)), b"{\"c\":[[\"x\",\"e\"]]}".to_vec()),
        (format!("{}-{}.delta", "9".repeat(40), "a".repeat(64)), b"{}".to_vec()),
    ];
    if let Some(pk) = &some_pack {
        // valid hash of other bytes
        junk.push((format!("{}.pack", sha(b"[{\"other\":true}]")), files[pk].clone()));
        junk.push((format!("1-{}.delta", sha(&files[pk])), files[pk].clone()));
    }
    // intact bytes stored under a name that only resembles their hash: a proper prefix of the
    // digest, upper-case hex, one digit more
    for k in keys.iter().filter(|k| k.ends_with(".delta")).take(2) {
        let stem = k.strip_suffix(".delta").unwrap();
        if let Some((i, h)) = refmodel::stem_idx(stem) {
            junk.push((format!("{}-{}.delta", i, &h[..12]), files[k].clone()));
            junk.push((format!("{}-{}.delta", i, h.to_uppercase()), files[k].clone()));
            junk.push((format!("{}-{}0.delta", i, h), files[k].clone()));
            junk.push((format!("{}-{}.delta", i + 1, h), files[k].clone()));
        }
    }
    if let Some(pk) = &some_pack {
        let h = pk.strip_suffix(".pack").unwrap();
        junk.push((format!("{}.pack", &h[..10]), files[pk].clone()));
        junk.push((format!("{}.pack", h.to_uppercase()), files[pk].clone()));
    }
    // structurally wrong blocks stored under the correct hash of their bytes (a junk file may be
    // named anything): both the library and the reference model must reject them
    for body in [
        &b"{\"k\":[1]}"[..],
        b"{\"k\":\"x\"}",
        b"{\"p\":\"x\"}",
        b"{\"p\":[5]}",
        b"{\"p\":[\"zz\"]}",
        b"{\"c\":[[1,2]]}",
        b"{\"c\":[[\"u\"]]}",
        b"{\"i\":5}",
        b"[]",
        b"{\"c\":[[\"u\",\"1-nothex\",\"d\"]]}",
    ] {
        junk.push((format!("1-{}.delta", sha(body)), body.to_vec()));
    }
    for (jn, jc) in junk {
        if jn.len() < 2 {
            continue;
        }
        let mut f2 = files.clone();
        f2.insert(jn.clone(), jc);
        judge_damaged(&mut res, &format!("inject {}", jn), &f2, caps, None);
        res.count("c10_junk_injections", 1);
    }
    // ---- live corruption: the per-read object check
    {
        let (ad, data) = store::raw_with(&files);
        set_caps((16, 1));
        let adc = ad.clone();
        if let Outcome::Ok(m) = guard(move || Melda::new(adc)) {
            let o = observe(&m);
            let mut truth: Vec<(String, String, String)> = vec![];
            for (u, ob) in &o.objects {
                for (rv, _, _) in &ob.revs {
                    if let Ok(v) = m.get_value(u, Some(rv)) {
                        truth.push((u.clone(), rv.clone(), serde_json::to_string(&v).unwrap()));
                    }
                }
            }
            let packs: Vec<String> = keys.iter().filter(|k| k.ends_with(".pack")).cloned().collect();
            let nflips = if dense { 400 } else { 60 };
            for _ in 0..nflips {
                if packs.is_empty() || truth.is_empty() {
                    break;
                }
                let pk = r.pick(&packs).clone();
                let orig = files[&pk].clone();
                if orig.is_empty() {
                    continue;
                }
                let mut v = orig.clone();
                let pos = r.below(v.len());
                v[pos] ^= 1 << r.below(8);
                data.lock().unwrap().insert(pk.clone(), v);
                for _ in 0..6 {
                    let (u, rv, t) = r.pick(&truth).clone();
                    match guard(|| m.get_value(&u, Some(&rv))) {
                        Outcome::Ok(val) => {
                            if serde_json::to_string(&val).unwrap() != t {
                                res.viol("C10", "live-corruption-exposes-altered-content", format!("flip in {} at {}: {} {} -> {}", pk, pos, u, rv, Value::Object(val)));
                            } else {
                                res.count("c10_live_reads_true", 1);
                            }
                        }
                        Outcome::Err(_) => res.count("c10_live_reads_refused", 1),
                        Outcome::Panic(_) => res.count("c10_live_reads_refused", 1),
                    }
                }
                data.lock().unwrap().insert(pk.clone(), orig);
            }
        }
    }
    // ---- damage between two refreshes: a pack that was indexed while intact is damaged in place
    // before a block that names it becomes applicable; that block must never take effect
    {
        let blocks: Vec<(&String, &refmodel::RefBlock)> = rs0.blocks.iter().collect();
        for _ in 0..(if dense { 24 } else { 8 }) {
            if blocks.is_empty() {
                break;
            }
            let (dstem, dblock) = blocks[r.below(blocks.len())];
            if dblock.packs.is_empty() {
                continue;
            }
            let pk = format!("{}.pack", dblock.packs[r.below(dblock.packs.len())]);
            // hold back either the block itself or one of its parents
            let held: String = if dblock.parents.is_empty() || r.chance(40) { format!("{}.delta", dstem) } else { format!("{}.delta", r.pick(&dblock.parents)) };
            let mut prefix = files.clone();
            prefix.remove(&held);
            let (ad, data) = store::raw_with(&prefix);
            set_caps((1, 1));
            let adc = ad.clone();
            let mut m = match guard(move || Melda::new(adc)) {
                Outcome::Ok(m) => m,
                _ => continue,
            };
            let orig = files[&pk].clone();
            if orig.is_empty() {
                continue;
            }
            let mut v = orig.clone();
            let pos = r.below(v.len());
            v[pos] ^= 1 << r.below(8);
            data.lock().unwrap().insert(pk.clone(), v);
            data.lock().unwrap().insert(held.clone(), files[&held].clone());
            res.count("c10_damage_between_refreshes", 1);
            match guard(|| m.refresh()) {
                Outcome::Ok(()) => {
                    let id = melda::melda::DeltaId::from(dstem).ok();
                    let applied = id.and_then(|id| m.get_delta(&id).ok().flatten()).map(|d| d.verif_status() == "applied").unwrap_or(false);
                    if applied {
                        res.viol("C10", "block-applied-although-its-pack-is-damaged", format!("pack {} damaged at byte {} after it was indexed; {} delivered; block {} applied", pk, pos, held, dstem));
                    }
                }
                Outcome::Err(_) => res.count("c10_reported_error", 1),
                Outcome::Panic(p) => res.viol("C10", "panic-on-damaged-storage", format!("refresh after in-place damage of {}: {}", pk, p)),
            }
        }
    }
    // ---- compression wrappers: damage the *stored* (compressed) bytes; the decoders must not panic and
    // whatever they return must still be subject to the hash checks
    for (wi, wrapper) in ["flate", "brotli"].iter().enumerate() {
        use melda::adapter::Adapter;
        let mk = |inner: store::Ad| -> store::Ad {
            let b: Box<dyn Adapter> = if wi == 0 { Box::new(melda::flate2adapter::Flate2Adapter::new_dyn(inner)) } else { Box::new(melda::brotliadapter::BrotliAdapter::new(inner)) };
            std::sync::Arc::new(std::sync::RwLock::new(b))
        };
        let inner = store::plain_mem();
        let wad = mk(inner.clone());
        for (k, v) in &files {
            let _ = store::put(&wad, k, v);
        }
        let stored = store::dump(&inner);
        let skeys: Vec<String> = stored.keys().cloned().collect();
        for _ in 0..(if dense { 40 } else { 10 }) {
            if skeys.is_empty() {
                break;
            }
            let sk = r.pick(&skeys).clone();
            let orig = &stored[&sk];
            if orig.is_empty() {
                continue;
            }
            let mut f2 = stored.clone();
            let what = match r.below(4) {
                0 => {
                    f2.insert(sk.clone(), orig[..r.below(orig.len())].to_vec());
                    "truncated"
                }
                1 => {
                    f2.insert(sk.clone(), vec![]);
                    "emptied"
                }
                _ => {
                    let mut v = orig.clone();
                    let p = r.below(v.len());
                    v[p] ^= 1 << r.below(8);
                    f2.insert(sk.clone(), v);
                    "bit-flipped"
                }
            };
            let dad = mk(store::mem_with(&f2));
            res.count("c10_damaged_compressed_items", 1);
            // the view of the storage through the wrapper: undecodable items count as absent
            let view: Files = {
                let g = dad.read().unwrap();
                let mut out = Files::new();
                let keys = guard(|| g.list_objects(""));
                if let Outcome::Ok(keys) = keys {
                    for k in keys {
                        match guard(|| g.read_object(&k, 0, 0)) {
                            Outcome::Ok(v) => {
                                out.insert(k, v);
                            }
                            Outcome::Err(_) => {}
                            Outcome::Panic(p) => {
                                res.viol("C10", &format!("{}-decoder-panics-on-damaged-bytes", wrapper), format!("{} {}: {}", what, sk, p));
                                res.viol("C17", &format!("{}-decoder-panics-on-damaged-bytes", wrapper), format!("{} {}: {}", what, sk, p));
                            }
                        }
                    }
                }
                out
            };
            match open_with(&dad, caps) {
                Outcome::Ok(m) => {
                    let o = observe(&m);
                    check_closure(&mut res, "C10", "damaged-compressed", &o, &view);
                    if o.doc.starts_with("PANIC") {
                        res.viol("C10", "read-panics-on-damaged-storage", format!("{} {} ({}): {}", what, sk, wrapper, o.doc));
                    }
                    res.count("c10_opened_ok", 1);
                }
                Outcome::Err(_) => res.count("c10_reported_error", 1),
                Outcome::Panic(p) => {
                    res.viol("C10", "panic-on-damaged-storage", format!("{} {} ({}): {}", what, sk, wrapper, p));
                    res.viol("C08", "panic-on-damaged-storage", format!("{} {} ({}): {}", what, sk, wrapper, p));
                }
            }
        }
    }
    // ---- a damaged local copy of a block, then meld from a peer that holds it intact: write-once
    // storage keeps the damaged bytes, so the block must stay without effect on this replica
    {
        let blocks: Vec<&String> = keys.iter().filter(|k| k.ends_with(".delta")).collect();
        for _ in 0..(if dense { 12 } else { 4 }) {
            if blocks.is_empty() {
                break;
            }
            let k = blocks[r.below(blocks.len())].clone();
            let orig = &files[&k];
            if orig.len() < 4 {
                continue;
            }
            let mut local = files.clone();
            let dmg = match r.below(3) {
                0 => orig[..orig.len() / 2].to_vec(),
                1 => {
                    let mut v = orig.clone();
                    let p = r.below(v.len());
                    v[p] ^= 1 << r.below(8);
                    v
                }
                _ => vec![],
            };
            local.insert(k.clone(), dmg);
            let lad = store::mem_with(&local);
            let pad = store::mem_with(&files);
            set_caps((2, 2));
            let out = guard(|| {
                let mut lm = Melda::new(lad.clone())?;
                let pm = Melda::new(pad.clone())?;
                lm.meld(&pm)?;
                lm.refresh()?;
                Ok(lm)
            });
            res.count("c10_damaged_local_copy_then_meld", 1);
            match out {
                Outcome::Ok(lm) => {
                    let o = observe(&lm);
                    let eff = store::dump(&lad);
                    check_closure(&mut res, "C10", "damaged-local-copy-after-meld", &o, &eff);
                    if let Outcome::Ok(fm) = open_with(&store::mem_with(&eff), (2, 2)) {
                        let of = observe(&fm);
                        if of.s_string() != o.s_string() || of.anchors != o.anchors {
                            res.viol("C10", "live-replica-differs-from-fresh-open-after-meld-over-damaged-copy", format!("{}: {}", k, of.diff(&o)));
                        }
                    }
                }
                Outcome::Err(_) => res.count("c10_reported_error", 1),
                Outcome::Panic(p) => res.viol("C10", "panic-on-damaged-storage", format!("meld over damaged local copy of {}: {}", k, p)),
            }
        }
    }
    let _ = read_doc;
    res.features.insert("items".into(), keys.len() as u64);
    res.features.insert("damages_to_depended_on_items".into(), depended_on);
    res.sample = Some(json!({"items": keys.len(), "blocks": rs0.blocks.len(), "depended_on_damages": depended_on}));
    res
}
pub fn c10_nontrivial(res: &CaseResult) -> bool {
    res.feat("damages_to_depended_on_items") >= 1 && res.feat("items") >= 4
}
