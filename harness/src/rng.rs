//! SplitMix64: the only source of randomness in the harness.
#[derive(Clone)]
pub struct Rng(pub u64);
impl Rng {
    pub fn new(seed: u64) -> Rng {
        Rng(seed)
    }
    /// Derive an independent stream from (seed, a, b)
    pub fn derive(seed: u64, a: u64, b: u64) -> Rng {
        let mut r = Rng(seed ^ a.wrapping_mul(0xA24BAED4963EE407) ^ b.wrapping_mul(0x9FB21C651E98DF25));
        r.next();
        r.next();
        r
    }
    pub fn next(&mut self) -> u64 {
        self.0 = self.0.wrapping_add(0x9E3779B97F4A7C15);
        let mut z = self.0;
        z = (z ^ (z >> 30)).wrapping_mul(0xBF58476D1CE4E5B9);
        z = (z ^ (z >> 27)).wrapping_mul(0x94D049BB133111EB);
        z ^ (z >> 31)
    }
    pub fn below(&mut self, n: usize) -> usize {
        if n == 0 {
            0
        } else {
            (self.next() % (n as u64)) as usize
        }
    }
    pub fn chance(&mut self, pct: usize) -> bool {
        self.below(100) < pct
    }
    pub fn pick<'a, T>(&mut self, v: &'a [T]) -> &'a T {
        &v[self.below(v.len())]
    }
    pub fn shuffle<T>(&mut self, v: &mut [T]) {
        for i in (1..v.len()).rev() {
            v.swap(i, self.below(i + 1));
        }
    }
    /// weighted choice: returns index
    pub fn weighted(&mut self, w: &[u32]) -> usize {
        let tot: u32 = w.iter().sum();
        if tot == 0 {
            return 0;
        }
        let mut x = (self.next() % tot as u64) as u32;
        for (i, wi) in w.iter().enumerate() {
            if x < *wi {
                return i;
            }
            x -= wi;
        }
        w.len() - 1
    }
}
