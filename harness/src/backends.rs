//! C17: the write-once adapter contract on every backend that runs offline, against a
//! 15-line model; plus the backend factory used by the replica-level differential.
use crate::engine::CaseResult;
use crate::obs::{guard, guard_plain, Outcome};
use crate::rng::Rng;
use melda::adapter::Adapter;
use melda::brotliadapter::BrotliAdapter;
use melda::filesystemadapter::FilesystemAdapter;
use melda::flate2adapter::Flate2Adapter;
use melda::memoryadapter::MemoryAdapter;
use melda::sqliteadapter::SqliteAdapter;
use serde_json::json;
use std::collections::BTreeMap;
use std::sync::{Arc, RwLock};

pub const BACKENDS: [&str; 12] = [
    "mem", "mem+flate", "mem+brotli", "fs", "fs+flate", "fs+brotli", "sqlite", "sqlite+flate", "sqlite+brotli", "sqlitemem", "sqlitemem+flate", "sqlitemem+brotli",
];

pub fn persistent(kind: &str) -> bool {
    kind.starts_with("fs") || (kind.starts_with("sqlite") && !kind.starts_with("sqlitemem"))
}

/// Opens (or re-opens) a backend of the given kind rooted at `path`.
pub fn make(kind: &str, path: &str) -> Outcome<Box<dyn Adapter>> {
    let kind = kind.to_string();
    let path = path.to_string();
    guard(move || {
        let base: Box<dyn Adapter> = match kind.split('+').next().unwrap() {
            "mem" => Box::new(MemoryAdapter::new()),
            "fs" => Box::new(FilesystemAdapter::new(&path).map_err(|e| anyhow::anyhow!("{}", e))?),
            "sqlite" => Box::new(SqliteAdapter::new(&format!("{}.db", path))),
            "sqlitemem" => Box::new(SqliteAdapter::new_in_memory()),
            k => anyhow::bail!("unknown backend {}", k),
        };
        let wrapped: Box<dyn Adapter> = if kind.ends_with("+flate") {
            Box::new(Flate2Adapter::new(Arc::new(RwLock::new(base))))
        } else if kind.ends_with("+brotli") {
            Box::new(BrotliAdapter::new(Arc::new(RwLock::new(base))))
        } else {
            base
        };
        Ok(wrapped)
    })
}

/// Like `make`, with an instrumented layer directly above the base backend (below any compression
/// wrapper) so that single writes can be made to fail.
pub fn make_flaky(kind: &str, path: &str) -> Outcome<(Box<dyn Adapter>, Arc<crate::store::MonState>)> {
    let base_kind = kind.split('+').next().unwrap().to_string();
    let wrap = kind.to_string();
    match make(&base_kind, path) {
        Outcome::Ok(base) => {
            let (inner, st) = crate::store::mon_over(base);
            let b: Box<dyn Adapter> = if wrap.ends_with("+flate") {
                Box::new(Flate2Adapter::new_dyn(inner))
            } else if wrap.ends_with("+brotli") {
                Box::new(BrotliAdapter::new(inner))
            } else {
                Box::new(inner)
            };
            Outcome::Ok((b, st))
        }
        Outcome::Err(e) => Outcome::Err(e),
        Outcome::Panic(p) => Outcome::Panic(p),
    }
}

/// The same backends constructed through `adapter::get_adapter(url)`
pub fn make_by_url(kind: &str, path: &str) -> Outcome<Box<dyn Adapter>> {
    let wrap = if kind.ends_with("+flate") {
        "+flate"
    } else if kind.ends_with("+brotli") {
        "+brotli"
    } else {
        ""
    };
    let url = match kind.split('+').next().unwrap() {
        "mem" => format!("memory{}://", wrap),
        "fs" => format!("file{}://{}", wrap, path),
        "sqlite" => format!("sqlite{}://{}.db", wrap, path),
        "sqlitemem" => format!("sqlite{}::memory:", wrap),
        _ => String::new(),
    };
    guard(move || melda::adapter::get_adapter(&url))
}

pub fn cleanup(path: &str) {
    let _ = std::fs::remove_dir_all(path);
    let _ = std::fs::remove_file(format!("{}.db", path));
    let _ = std::fs::remove_file(format!("{}.db-journal", path));
}

fn big_text(r: &mut Rng, n: usize) -> Vec<u8> {
    // poorly compressible text, larger than the 32 KiB windows of the compressors
    let mut v = Vec::with_capacity(n);
    while v.len() < n {
        let w = r.next();
        v.extend_from_slice(format!("{:x} ", w).as_bytes());
    }
    v.truncate(n);
    v
}
fn rand_bytes(r: &mut Rng) -> Vec<u8> {
    match r.below(10) {
        8 => {
            let n = 70_000 + r.below(200_000);
            big_text(r, n)
        }
        9 => (0..40_000 + r.below(60_000)).map(|_| r.below(256) as u8).collect(),
        0 => vec![],
        1 => vec![r.below(256) as u8],
        2 => (0..5000).map(|_| r.below(256) as u8).collect(), // incompressible
        3 => vec![b'a'; 5000],
        4 => format!("[{{\"k\":{}}},{{\"s\":\"x}}{{\"}}]", r.below(1000)).into_bytes(),
        5 => (0..r.below(300)).map(|_| r.below(256) as u8).collect(),
        6 => vec![0u8; 1 + r.below(64)],
        _ => (0..r.below(40)).map(|i| (i * 7) as u8).collect(),
    }
}
fn rand_key(r: &mut Rng) -> String {
    let stems = ["ab", "abc", "1-0f3a", "12-ffee00", "zz9", "0a", "a_b", "k1", "k2", "k3", "QQ", "7-7", "aa.bb"];
    let sfx = [".delta", ".pack", ".other", "", ".delta", ".pack"];
    format!("{}{}", stems[r.below(stems.len())], sfx[r.below(sfx.len())])
}

pub fn contract_case(seed: u64, case: u64, kind: &str, tmp: &str, nops: usize) -> CaseResult {
    let mut res = CaseResult::default();
    let mut r = Rng::derive(seed, case, 0xC17);
    let path = format!("{}/c17_{}_{}_{}", tmp, kind.replace('+', "_"), seed, case);
    cleanup(&path);
    // every other case constructs the backend through its URL (adapter::get_adapter)
    let by_url = (case / 12) % 2 == 1;
    let flaky: std::cell::RefCell<Option<Arc<crate::store::MonState>>> = std::cell::RefCell::new(None);
    let open = |k: &str, p: &str| {
        if by_url {
            make_by_url(k, p)
        } else {
            match make_flaky(k, p) {
                Outcome::Ok((b, st)) => {
                    *flaky.borrow_mut() = Some(st);
                    Outcome::Ok(b)
                }
                Outcome::Err(e) => Outcome::Err(e),
                Outcome::Panic(pn) => Outcome::Panic(pn),
            }
        }
    };
    let mut ad = match open(kind, &path) {
        Outcome::Ok(a) => a,
        o => {
            res.viol("C17", &format!("backend-open-failed-{}{}", kind.replace('+', "-"), if by_url { "-by-url" } else { "" }), format!("{}: {}", kind, o.describe()));
            return res;
        }
    };
    res.features.insert("by_url".into(), by_url as u64);
    let mut model: BTreeMap<String, Vec<u8>> = BTreeMap::new();
    let mut reopens = 0u64;
    macro_rules! bad {
        ($name:expr, $d:expr) => {{
            res.viol("C17", &format!("{}-{}", $name, kind.replace('+', "-")), $d);
        }};
    }
    for step in 0..nops {
        match r.below(17) {
            0..=3 => {
                let k = rand_key(&mut r);
                let v = rand_bytes(&mut r);
                res.trace.push(format!("write {} ({} bytes)", k, v.len()));
                match guard(|| ad.write_object(&k, &v)) {
                    Outcome::Ok(()) => {
                        model.entry(k).or_insert(v);
                    }
                    o => bad!("write-failed", format!("step {} key {}: {}", step, k, o.describe())),
                }
                res.count("c17_writes", 1);
            }
            4..=5 => {
                // whole read (also of a missing key)
                let k = if r.chance(80) && !model.is_empty() { model.keys().nth(r.below(model.len())).unwrap().clone() } else { rand_key(&mut r) };
                let got = guard(|| ad.read_object(&k, 0, 0));
                res.count("c17_reads", 1);
                match (model.get(&k), got) {
                    (Some(v), Outcome::Ok(g)) => {
                        if &g != v {
                            bad!("read-returns-other-bytes", format!("step {} key {}: {} bytes vs first write {} bytes", step, k, g.len(), v.len()));
                        }
                    }
                    (Some(_), o) => bad!("read-of-existing-key-failed", format!("step {} key {}: {}", step, k, o.describe())),
                    (None, Outcome::Ok(g)) => bad!("read-of-missing-key-succeeds", format!("step {} key {}: {} bytes", step, k, g.len())),
                    (None, Outcome::Err(_)) => {}
                    (None, Outcome::Panic(p)) => bad!("read-of-missing-key-panics", format!("step {} key {}: {}", step, k, p)),
                }
            }
            6..=8 => {
                // non-empty in-range slice
                let cands: Vec<&String> = model.iter().filter(|(_, v)| !v.is_empty()).map(|(k, _)| k).collect();
                if cands.is_empty() {
                    continue;
                }
                let k = cands[r.below(cands.len())].clone();
                let v = model[&k].clone();
                let off = r.below(v.len());
                let len = 1 + r.below(v.len() - off);
                res.count("c17_ranged_reads", 1);
                match guard(|| ad.read_object(&k, off, len)) {
                    Outcome::Ok(g) => {
                        if g != v[off..off + len] {
                            bad!("ranged-read-returns-other-bytes", format!("step {} key {} [{}..+{}] of {}", step, k, off, len, v.len()));
                        }
                    }
                    o => bad!("ranged-read-failed", format!("step {} key {} [{}..+{}] of {}: {}", step, k, off, len, v.len(), o.describe())),
                }
            }
            11 => {
                // sweep of small windows across a large value (compressor block boundaries)
                let cands: Vec<&String> = model.iter().filter(|(_, v)| v.len() > 40_000).map(|(k, _)| k).collect();
                if cands.is_empty() {
                    continue;
                }
                let k = cands[r.below(cands.len())].clone();
                let v = model[&k].clone();
                let win = 200 + r.below(600);
                let mut off = r.below(4096);
                let mut n = 0;
                while off + win <= v.len() && n < 80 {
                    res.count("c17_ranged_reads", 1);
                    match guard(|| ad.read_object(&k, off, win)) {
                        Outcome::Ok(g) => {
                            if g != v[off..off + win] {
                                bad!("ranged-read-returns-other-bytes", format!("step {} key {} [{}..+{}] of {} (sweep): got {} bytes", step, k, off, win, v.len(), g.len()));
                                break;
                            }
                        }
                        o => {
                            bad!("ranged-read-failed", format!("step {} key {} [{}..+{}] of {}: {}", step, k, off, win, v.len(), o.describe()));
                            break;
                        }
                    }
                    off += 4096 - win / 2 + r.below(64);
                    n += 1;
                }
                res.feat_add("big_value_sweeps", 1);
            }
            12 => {
                // a second handle on the same directory / database writes; the first must see it
                if persistent(kind) {
                    let k = rand_key(&mut r);
                    let v = rand_bytes(&mut r);
                    res.trace.push(format!("write {} through a second handle", k));
                    match make(kind, &path) {
                        Outcome::Ok(other) => match guard(|| other.write_object(&k, &v)) {
                            Outcome::Ok(()) => {
                                model.entry(k).or_insert(v);
                                res.feat_add("second_handle_writes", 1);
                            }
                            o => bad!("write-through-second-handle-failed", format!("step {} key {}: {}", step, k, o.describe())),
                        },
                        o => bad!("second-handle-open-failed", format!("step {}: {}", step, o.describe())),
                    }
                }
            }
            15 => {
                // the base backend refuses one write; the retry of the same write must store the value
                let st = flaky.borrow().clone();
                if let Some(st) = st {
                    let k = rand_key(&mut r);
                    let v = rand_bytes(&mut r);
                    let n = *st.nwrites.lock().unwrap();
                    *st.fail_at.lock().unwrap() = vec![n];
                    let r1 = guard(|| ad.write_object(&k, &v));
                    st.fail_at.lock().unwrap().clear();
                    let r2 = guard(|| ad.write_object(&k, &v));
                    res.trace.push(format!("write {} with a refused first attempt: {} then {}", k, r1.describe(), r2.describe()));
                    res.feat_add("refused_writes_retried", 1);
                    if let Outcome::Panic(p) = &r1 {
                        bad!("write-panics-when-backend-refuses", format!("step {} key {}: {}", step, k, p));
                    }
                    match r2 {
                        Outcome::Ok(()) => {
                            model.entry(k).or_insert(v);
                        }
                        o => bad!("retry-after-refused-write-failed", format!("step {} key {}: {}", step, k, o.describe())),
                    }
                }
            }
            9..=10 => {
                let ext = [".delta", ".pack", ".other", "", ".nothing", "ck", "a"][r.below(7)];
                res.count("c17_lists", 1);
                match guard(|| ad.list_objects(ext)) {
                    Outcome::Ok(mut g) => {
                        g.sort();
                        let mut want: Vec<String> = model.keys().filter(|k| k.ends_with(ext)).map(|k| k[..k.len() - ext.len()].to_string()).collect();
                        want.sort();
                        if g != want {
                            bad!("list-differs", format!("step {} ext {:?}: {:?} vs model {:?}", step, ext, g, want));
                        }
                    }
                    o => bad!("list-failed", format!("step {} ext {:?}: {}", step, ext, o.describe())),
                }
            }
            _ => {
                if persistent(kind) {
                    drop(ad);
                    res.trace.push("drop and reopen".into());
                    ad = match open(kind, &path) {
                        Outcome::Ok(a) => a,
                        o => {
                            bad!("reopen-failed", format!("step {}: {}", step, o.describe()));
                            cleanup(&path);
                            return res;
                        }
                    };
                    reopens += 1;
                }
            }
        }
        if res.violations.len() > 6 {
            break;
        }
    }
    // final: reopen persistent backends and compare everything
    if persistent(kind) {
        drop(ad);
        match make(kind, &path) {
            Outcome::Ok(a) => {
                reopens += 1;
                let listed = guard(|| a.list_objects(""));
                match listed {
                    Outcome::Ok(mut g) => {
                        g.sort();
                        let want: Vec<String> = model.keys().cloned().collect();
                        if g != want {
                            bad!("content-differs-after-reopen", format!("{:?} vs {:?}", g, want));
                        }
                    }
                    o => bad!("list-after-reopen-failed", o.describe()),
                }
                for (k, v) in &model {
                    match guard(|| a.read_object(k, 0, 0)) {
                        Outcome::Ok(g) => {
                            if &g != v {
                                bad!("bytes-differ-after-reopen", format!("key {}", k));
                            }
                        }
                        o => bad!("read-after-reopen-failed", format!("key {}: {}", k, o.describe())),
                    }
                }
            }
            o => bad!("reopen-failed", o.describe()),
        }
    }
    // a replica constructed from the URL: commit, read, reopen from the same URL, time travel from the URL
    if by_url {
        let upath = format!("{}_u", path);
        cleanup(&upath);
        let wrap = if kind.ends_with("+flate") { "+flate" } else if kind.ends_with("+brotli") { "+brotli" } else { "" };
        let url = match kind.split('+').next().unwrap() {
            "mem" => format!("memory{}://", wrap),
            "fs" => format!("file{}://{}", wrap, upath),
            "sqlite" => format!("sqlite{}://{}.db", wrap, upath),
            _ => format!("sqlite{}::memory:", wrap),
        };
        let out = guard(|| {
            let m = melda::melda::Melda::new_from_url(&url)?;
            let d1 = serde_json::json!({"items\u{266D}": [{"_id": "a", "v": 1}], "t": "x}{"});
            m.update(d1.as_object().unwrap().clone())?;
            let a1 = m.commit(None)?.ok_or_else(|| anyhow::anyhow!("no commit"))?;
            let d2 = serde_json::json!({"items\u{266D}": [{"_id": "a", "v": 2}, {"_id": "b"}], "t": "y"});
            m.update(d2.as_object().unwrap().clone())?;
            m.commit(None)?;
            let live = serde_json::to_string(&m.read(None)?)?;
            let listed = m.get_adapter().read().unwrap().list_objects(".delta")?.len();
            let mut reopened = None;
            let mut past = None;
            if persistent(kind) {
                reopened = Some(serde_json::to_string(&melda::melda::Melda::new_from_url(&url)?.read(None)?)?);
                past = Some(serde_json::to_string(&melda::melda::Melda::new_from_url_until(&url, &a1)?.read(None)?)?);
            }
            Ok((live, listed, reopened, past))
        });
        res.count("c17_url_replicas", 1);
        match out {
            Outcome::Ok((live, listed, reopened, past)) => {
                if listed != 2 {
                    bad!("url-replica-storage-lists-other-blocks", format!("{} blocks listed through get_adapter()", listed));
                }
                if let Some(r2) = reopened {
                    if r2 != live {
                        bad!("url-replica-reopens-differently", format!("{} vs {}", live, r2));
                    }
                }
                if let Some(p) = past {
                    if !p.contains("\"v\":1") || p.contains("\"b\"") {
                        bad!("url-replica-time-travel-wrong", p);
                    }
                }
            }
            o => bad!("url-replica-failed", o.describe()),
        }
        cleanup(&upath);
    }
    let _ = guard_plain(|| ());
    cleanup(&path);
    res.features.insert("keys".into(), model.len() as u64);
    res.features.insert("reopens".into(), reopens);
    res.features.insert("backend".into(), BACKENDS.iter().position(|b| *b == kind).unwrap_or(99) as u64);
    res.opkinds = format!("{}:{}", kind, model.len());
    res.sample = Some(json!({"backend": kind, "ops": res.trace.iter().take(12).collect::<Vec<_>>(), "keys": model.len(), "reopens": reopens}));
    res
}
pub fn contract_nontrivial(res: &CaseResult) -> bool {
    res.feat("keys") >= 5
}
