//! C08 under several client threads: one replica shared the way applications share it
//! (`Arc<RwLock<Melda>>`: `&self` operations under the read lock, `refresh` / `unstage` under the
//! write lock) while a peer replica is written and melded from concurrently.  The oracle is the
//! supervisor (every call returns) plus "no call aborts its thread"; errors are acceptable answers
//! while other threads are changing the replica.  At the quiescent end the C04 / C03 oracles run.
use crate::engine::{open_with, progress, CaseResult};
use crate::gen;
use crate::obs::{guard, guard_plain, observe, read_doc, Outcome};
use crate::rng::Rng;
use crate::store;
use std::sync::atomic::{AtomicU64, Ordering};
use std::sync::{Arc, Mutex, RwLock};

pub fn c08mt_case(seed: u64, case: u64, thorough: bool) -> CaseResult {
    let mut res = CaseResult::default();
    let mut r = Rng::derive(seed, case, 0xC08);
    let dp = gen::DocProfile { hostile_ids: false, ..gen::DocProfile::default() };
    let caps = (*r.pick(&[1u32, 2, 16]), *r.pick(&[1u32, 2, 16]));
    let (ad, _st) = store::mon_mem();
    let (pad, _pst) = store::mon_mem();
    let (m, peer) = match (open_with(&ad, caps), open_with(&pad, caps)) {
        (Outcome::Ok(m), Outcome::Ok(p)) => (m, p),
        _ => {
            res.aborted = Some("open failed".into());
            return res;
        }
    };
    let d0 = gen::rand_doc(&mut r, &dp);
    let pre = guard(|| {
        m.update(d0.as_object().unwrap().clone())?;
        m.commit(None)?;
        peer.meld(&m)?;
        Ok(())
    });
    let mut peer = peer;
    let pre2 = guard(|| peer.refresh());
    if !pre.is_ok() || !pre2.is_ok() {
        res.viol("C08", "mt-setup-failed", format!("{} / {}", pre.describe(), pre2.describe()));
        return res;
    }
    let m = Arc::new(RwLock::new(m));
    let peer = Arc::new(peer);
    let nthreads = 2 + r.below(3);
    let nops = if thorough { 40 } else { 16 } + r.below(16);
    let viols: Arc<Mutex<Vec<(String, String)>>> = Arc::new(Mutex::new(vec![]));
    let calls = Arc::new(AtomicU64::new(0));
    let errs = Arc::new(AtomicU64::new(0));
    let overlapped = Arc::new(AtomicU64::new(0));
    let inflight = Arc::new(AtomicU64::new(0));
    let kinds: Arc<Mutex<std::collections::BTreeSet<String>>> = Arc::new(Mutex::new(Default::default()));
    progress(&format!("CALL case={} step=1 c08mt-threads", case));
    let mut hs = vec![];
    for t in 0..nthreads {
        let (m, peer, viols, calls, errs, overlapped, inflight, kinds) =
            (m.clone(), peer.clone(), viols.clone(), calls.clone(), errs.clone(), overlapped.clone(), inflight.clone(), kinds.clone());
        let mut tr = Rng::derive(seed ^ 0x77, case, t as u64);
        let d0 = d0.clone();
        let dp = gen::DocProfile { hostile_ids: false, ..gen::DocProfile::default() };
        hs.push(std::thread::spawn(move || {
            let mut cur = d0;
            for _ in 0..nops {
                let op = tr.weighted(&[22, 12, 14, 8, 8, 6, 6, 5, 4, 4, 4, 3, 4]);
                let name = ["update", "commit", "read", "queries", "meld", "peer_write", "refresh", "resolve", "stage", "snapshot", "unstage", "reload", "replay"][op];
                kinds.lock().unwrap().insert(name.to_string());
                calls.fetch_add(1, Ordering::SeqCst);
                if inflight.fetch_add(1, Ordering::SeqCst) > 0 {
                    overlapped.fetch_add(1, Ordering::SeqCst);
                }
                let out: Outcome<()> = match op {
                    0 => {
                        cur = gen::mutate_doc(&mut tr, &dp, &cur);
                        let g = m.read().unwrap_or_else(|e| e.into_inner());
                        guard(|| g.update(cur.as_object().unwrap().clone()).map(|_| ()))
                    }
                    1 => {
                        let g = m.read().unwrap_or_else(|e| e.into_inner());
                        let info = gen::rand_info(&mut tr, t as u64);
                        guard(|| g.commit(info).map(|_| ()))
                    }
                    2 => {
                        let g = m.read().unwrap_or_else(|e| e.into_inner());
                        guard(|| g.read(None).map(|_| ()))
                    }
                    3 => {
                        let g = m.read().unwrap_or_else(|e| e.into_inner());
                        guard(|| {
                            for u in g.get_all_objects() {
                                let _ = g.get_winner(&u);
                                let _ = g.get_conflicting(&u);
                                let _ = g.get_value(&u, None);
                            }
                            let _ = g.in_conflict();
                            let _ = g.has_staging();
                            for a in g.get_anchors() {
                                let _ = g.get_delta(&a);
                            }
                            Ok(())
                        })
                    }
                    4 => {
                        let g = m.read().unwrap_or_else(|e| e.into_inner());
                        guard(|| g.meld(&peer).map(|_| ()))
                    }
                    5 => {
                        let d = gen::mutate_doc(&mut tr, &dp, &cur);
                        guard(|| {
                            peer.update(d.as_object().unwrap().clone())?;
                            peer.commit(None).map(|_| ())
                        })
                    }
                    6 => {
                        let mut g = m.write().unwrap_or_else(|e| e.into_inner());
                        guard(|| g.refresh())
                    }
                    7 => {
                        let g = m.read().unwrap_or_else(|e| e.into_inner());
                        guard(|| {
                            for u in g.in_conflict() {
                                if let Ok(w) = g.get_winner(&u) {
                                    let _ = g.resolve_as(&u, &w);
                                }
                            }
                            Ok(())
                        })
                    }
                    8 => {
                        let g = m.read().unwrap_or_else(|e| e.into_inner());
                        guard(|| g.stage().map(|_| ()))
                    }
                    9 => {
                        let g = m.read().unwrap_or_else(|e| e.into_inner());
                        guard(|| g.stage_full_snapshot())
                    }
                    10 => {
                        let mut g = m.write().unwrap_or_else(|e| e.into_inner());
                        guard(|| g.unstage())
                    }
                    11 => {
                        let g = m.read().unwrap_or_else(|e| e.into_inner());
                        guard(|| g.reload())
                    }
                    _ => {
                        let g = m.read().unwrap_or_else(|e| e.into_inner());
                        guard(|| {
                            let s = g.stage()?;
                            g.replay_stage(&s)
                        })
                    }
                };
                inflight.fetch_sub(1, Ordering::SeqCst);
                match out {
                    Outcome::Ok(_) => {}
                    Outcome::Err(_) => {
                        errs.fetch_add(1, Ordering::SeqCst);
                    }
                    Outcome::Panic(p) => {
                        viols.lock().unwrap().push((name.to_string(), p));
                        return;
                    }
                }
            }
        }));
    }
    for h in hs {
        let _ = h.join();
    }
    progress(&format!("RET case={} step=1", case));
    res.count("mt_calls", calls.load(Ordering::SeqCst));
    res.count("mt_calls_answered_with_error", errs.load(Ordering::SeqCst));
    res.count("mt_calls_started_while_another_was_in_flight", overlapped.load(Ordering::SeqCst));
    res.features.insert("threads".into(), nthreads as u64);
    res.features.insert("overlapped".into(), overlapped.load(Ordering::SeqCst));
    res.opkinds = kinds.lock().unwrap().iter().cloned().collect::<Vec<_>>().join(",");
    let vs = viols.lock().unwrap().clone();
    if let Some((op, p)) = vs.first() {
        res.viol("C08", &format!("mt-panic-in-{}", op), format!("{} client threads on one replica: {} panicked: {}", nthreads, op, p));
        return res;
    }
    // quiescent end: the replica is still usable and exact
    progress(&format!("CALL case={} step=2 c08mt-quiescent", case));
    let mut g = match Arc::try_unwrap(m) {
        Ok(l) => l.into_inner().unwrap_or_else(|e| e.into_inner()),
        Err(_) => {
            res.aborted = Some("replica still shared".into());
            return res;
        }
    };
    let dmid = gen::mutate_doc(&mut r, &dp, &d0);
    let dfin = gen::mutate_doc(&mut r, &dp, &dmid);
    let fin = guard(|| {
        g.update(dmid.as_object().unwrap().clone())?;
        g.commit(None)?;
        g.meld(&peer)?;
        g.refresh()?;
        g.update(dmid.as_object().unwrap().clone())?;
        g.commit(None)?;
        g.update(dfin.as_object().unwrap().clone())?;
        Ok(())
    });
    if !fin.is_ok() {
        res.viol("C08", "mt-unusable-after-concurrent-use", fin.describe());
        progress(&format!("RET case={} step=2", case));
        return res;
    }
    let (got, ok) = read_doc(&g);
    let exp = serde_json::to_string(&gen::expected_read(&dfin)).unwrap();
    if !ok || got != exp {
        res.viol("C04", "mt-read-differs-after-concurrent-use", format!("read {} expected {}", crate::obs::trunc(&got, 400), crate::obs::trunc(&exp, 400)));
    }
    let c = guard(|| g.commit(None));
    if !c.is_ok() {
        res.viol("C08", "mt-commit-failed-after-concurrent-use", c.describe());
    } else if let Outcome::Ok(f) = open_with(&ad, caps) {
        let (a, b) = (observe(&g), observe(&f));
        if a.s_value(false) != b.s_value(false) || a.anchors != b.anchors {
            res.viol("C03", "mt-reopen-differs-after-concurrent-use", a.diff(&b));
        }
    }
    let _ = guard_plain(|| ());
    progress(&format!("RET case={} step=2", case));
    res.count("mt_cases", 1);
    res
}
