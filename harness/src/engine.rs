//! History engine: random multi-replica op scripts executed against the real library
//! with the inline monitors (C02 C03 C04 C05 C07 C11 C12 C13 C14 C15 C19, panics → C08).
use crate::gen::{self, DocProfile};
use crate::obs::{self, guard, guard_plain, observe, trunc, Obs, Outcome};
use crate::refmodel::{self, Files};
use crate::rng::Rng;
use crate::store::{self, Ad, MonState};
use melda::melda::{DeltaId, Melda};
use melda::verif::Revision;
use serde_json::{json, Map, Value};
use std::collections::{BTreeMap, BTreeSet};
use std::io::Write;
use std::sync::{Arc, Mutex};

// ---------------------------------------------------------------- progress pipe
pub static PROGRESS: Mutex<Option<std::fs::File>> = Mutex::new(None);
pub fn progress(line: &str) {
    if let Some(f) = PROGRESS.lock().unwrap().as_mut() {
        let _ = writeln!(f, "{}", line);
        let _ = f.flush();
    }
}

// ---------------------------------------------------------------- results
#[derive(Clone, Debug)]
pub struct Viol {
    pub prop: &'static str,
    pub sig: String,
    pub detail: String,
}

#[derive(Default)]
pub struct CaseResult {
    pub violations: Vec<Viol>,
    pub features: BTreeMap<String, u64>,
    pub counters: BTreeMap<String, u64>,
    pub trace: Vec<String>,
    pub digests: Vec<String>,
    pub aborted: Option<String>,
    pub opkinds: String,
    pub sample: Option<Value>,
}
impl CaseResult {
    pub fn viol(&mut self, prop: &'static str, name: &str, detail: String) {
        let sig = format!("{}/{}", prop, name);
        if self.violations.iter().filter(|v| v.sig == sig).count() < 2 {
            self.violations.push(Viol { prop, sig, detail: trunc(&detail, 2500) });
        }
    }
    pub fn count(&mut self, k: &str, n: u64) {
        *self.counters.entry(k.to_string()).or_insert(0) += n;
    }
    pub fn feat_max(&mut self, k: &str, n: u64) {
        let e = self.features.entry(k.to_string()).or_insert(0);
        if n > *e {
            *e = n;
        }
    }
    pub fn feat_add(&mut self, k: &str, n: u64) {
        *self.features.entry(k.to_string()).or_insert(0) += n;
    }
    pub fn feat(&self, k: &str) -> u64 {
        self.features.get(k).copied().unwrap_or(0)
    }
    pub fn to_json(&self, case: u64, nontrivial: bool, with_trace: bool) -> Value {
        let mut fp_src = self.opkinds.clone();
        for (k, v) in &self.features {
            fp_src.push_str(&format!("|{}={}", k, v));
        }
        let verdict = if !self.violations.is_empty() {
            "violated"
        } else if self.aborted.is_some() {
            "inconclusive"
        } else {
            "held"
        };
        let mut v = json!({
            "t": "case", "case": case, "verdict": verdict, "nontrivial": nontrivial,
            "fp": gen::sha(fp_src.as_bytes())[..16].to_string(),
            "features": self.features, "counters": self.counters,
            "violations": self.violations.iter().map(|v| json!({"prop": v.prop, "sig": v.sig, "detail": v.detail})).collect::<Vec<_>>(),
            "aborted": self.aborted,
        });
        if with_trace || !self.violations.is_empty() {
            let t: Vec<String> = self.trace.iter().map(|s| trunc(s, 700)).collect();
            v["trace"] = json!(t);
        }
        if let Some(sm) = &self.sample {
            if with_trace || !self.violations.is_empty() {
                v["sample"] = sm.clone();
            }
        }
        if !self.digests.is_empty() {
            v["digest_seq"] = json!(gen::sha(self.digests.join(",").as_bytes())[..20].to_string());
            if with_trace {
                v["digests"] = json!(self.digests);
            }
        }
        v
    }
}

// ---------------------------------------------------------------- profile
pub const OP_UPDATE: usize = 0;
pub const OP_COMMIT: usize = 1;
pub const OP_MELD_REFRESH: usize = 2;
pub const OP_MELD: usize = 3;
pub const OP_REFRESH: usize = 4;
pub const OP_RELOAD: usize = 5;
pub const OP_TRAVEL: usize = 6;
pub const OP_RESOLVE: usize = 7;
pub const OP_UNSTAGE: usize = 8;
pub const OP_REPLAY: usize = 9;
pub const OP_SNAPSHOT: usize = 10;
pub const OP_REOPEN: usize = 11;
pub const OP_FILECOPY: usize = 12;
pub const OP_LOWLEVEL: usize = 13;
pub const OP_REVERT: usize = 14;
pub const NOPS: usize = 15;
pub const OP_NAMES: [&str; NOPS] = [
    "update", "commit", "meld+refresh", "meld", "refresh", "reload", "travel", "resolve", "unstage", "replay", "snapshot", "reopen", "filecopy", "lowlevel", "revert",
];

#[derive(Clone, Debug)]
pub struct Profile {
    pub name: String,
    pub nrep: (usize, usize),
    pub steps: (usize, usize),
    pub w: [u32; NOPS],
    pub doc: DocProfile,
    pub caps: Vec<u32>,
    pub final_sync: bool,
    pub hostile_info: bool,
    pub perm_listing: bool,
    pub backend: String,
    pub tmp: String,
    /// percentage of updates that are immediately followed by a commit
    pub commit_after_update: usize,
    /// configuration knobs that must not change the logical script (C18)
    pub cap_shift: usize,
    pub perm_salt: u64,
    /// percentage of commits during which one storage write is made to fail
    pub fault_pct: usize,
    pub self_meld: bool,
}

pub fn profile(name: &str) -> Profile {
    //            upd com m+r mld rfr rld trv res uns rpl snp reo fcp low rev
    let general = [30, 18, 14, 3, 3, 3, 4, 6, 3, 3, 3, 3, 3, 0, 4];
    let mut p = Profile {
        name: name.to_string(),
        nrep: (2, 4),
        steps: (30, 60),
        w: general,
        doc: DocProfile::default(),
        caps: vec![1, 2, 3, 16],
        final_sync: true,
        hostile_info: true,
        perm_listing: true,
        backend: "mem".to_string(),
        tmp: std::env::temp_dir().to_string_lossy().to_string(),
        commit_after_update: 40,
        cap_shift: 0,
        perm_salt: 0,
        fault_pct: 6,
        self_meld: false,
    };
    match name {
        "general" => {}
        "conflict" => {
            p.w = [28, 20, 20, 2, 2, 2, 3, 10, 2, 2, 3, 2, 2, 0, 4];
            p.doc.id_pool = 6;
            p.doc.kind_change = false;
        }
        "content" => {
            // C03: hostile content, many updates per commit, reopen after every commit
            p.nrep = (1, 2);
            p.w = [50, 22, 5, 0, 0, 2, 0, 3, 2, 6, 3, 5, 0, 0, 2];
            p.steps = (15, 35);
            p.commit_after_update = 15;
            p.doc.charcode = true;
        }
        "kind" => {
            // C04 kind-change profile
            p.w = [45, 15, 12, 1, 1, 1, 2, 4, 3, 3, 2, 2, 2, 0, 7];
            p.doc.id_pool = 7;
        }
        "maint" => {
            // C12: maintenance ops in conflicted / staged states
            p.w = [22, 18, 16, 8, 8, 8, 3, 3, 2, 2, 8, 3, 3, 0, 2];
            p.doc.id_pool = 6;
            p.doc.kind_change = false;
        }
        "graph" => {
            // C13 / C14: branching graphs, time travel, partial delivery
            p.nrep = (3, 4);
            p.w = [24, 22, 16, 3, 4, 3, 12, 3, 1, 1, 1, 3, 7, 0, 2];
            p.steps = (30, 60);
        }
        "stage" => {
            // C15
            p.nrep = (2, 3);
            p.w = [34, 10, 10, 1, 3, 3, 2, 8, 12, 12, 5, 2, 1, 0, 4];
        }
        "lowlevel" => {
            p.w = [20, 16, 12, 2, 3, 4, 4, 6, 5, 5, 3, 3, 2, 22, 2];
        }
        "allops" => {
            // C08 / C18: every public method in every state
            p.w = [22, 14, 14, 4, 5, 5, 5, 8, 5, 5, 6, 3, 4, 6, 3];
            p.doc.id_pool = 7;
            p.self_meld = true;
        }
        "long" => {
            // long per-object histories: revision indices cross 9 -> 10 (numeric vs textual order)
            p.nrep = (2, 2);
            p.steps = (90, 140);
            p.w = [60, 8, 10, 0, 1, 1, 2, 4, 1, 1, 1, 1, 1, 0, 3];
            p.doc.id_pool = 5;
            p.doc.kind_change = false;
            p.doc.nested = false;
            p.commit_after_update = 25;
        }
        "verylong" => {
            // one or two replicas, hundreds of updates: revision indices pass 99 -> 100
            p.nrep = (1, 2);
            p.steps = (230, 280);
            p.w = [70, 6, 6, 0, 1, 1, 2, 3, 1, 1, 1, 1, 0, 0, 3];
            p.doc.id_pool = 4;
            p.doc.kind_change = false;
            p.doc.nested = false;
            p.doc.hostile_ids = false;
            p.commit_after_update = 12;
        }
        "wide" => {
            // documents with more tracked objects than the default cache capacity (16)
            p.doc.id_pool = 16;
            p.caps = vec![16, 16, 3, 1];
            p.w = [34, 16, 14, 2, 3, 3, 4, 5, 3, 3, 3, 4, 2, 0, 4];
        }
        "bigdoc" => {
            // packs larger than the compressors' blocks; every commit is reopened
            p.nrep = (1, 2);
            p.steps = (8, 14);
            p.w = [45, 25, 8, 0, 0, 3, 0, 2, 2, 4, 2, 8, 0, 0, 1];
            p.doc.big = true;
            p.doc.id_pool = 6;
            p.caps = vec![1, 2, 16];
            p.commit_after_update = 30;
        }
        "noconflictdocs" => {
            // plain strings/ids (used where hostile content is not the point, e.g. Miri)
            p.doc.hostile_strings = false;
            p.doc.hostile_ids = false;
        }
        _ => panic!("unknown profile {}", name),
    }
    p
}

// ---------------------------------------------------------------- world
pub struct Rep {
    pub ad: Ad,
    pub st: Arc<MonState>,
    pub m: Melda,
    pub behind: bool,
    pub travelled: Option<BTreeSet<String>>,
    pub last_doc: Option<Value>,
    pub doc_hist: Vec<Value>,
    pub clean: Obs,
    pub cur: Obs,
    pub heads_log: Vec<(BTreeSet<DeltaId>, Obs)>,
    pub prev_files: BTreeMap<String, String>,
    pub writes_seen: usize,
    pub dead: bool,
    pub caps: (u32, u32),
    pub path: Option<String>,
    /// heads_log index -> commit metadata, for entries produced by a commit
    pub commit_infos: BTreeMap<usize, Option<Map<String, Value>>>,
    /// while in the past: the document and metadata of a later commit that can be redone verbatim
    pub redo: Option<(Value, Option<Map<String, Value>>)>,
}

pub struct World {
    pub reps: Vec<Rep>,
    pub prof: Profile,
    pub r: Rng,
    pub res: CaseResult,
    pub case: u64,
    /// (uuid, revision) -> (value json, parent)
    pub revtab: BTreeMap<(String, String), (String, Option<String>)>,
    pub key_hash: BTreeMap<String, String>,
    pub step: usize,
    /// items the harness itself put into some storage as "other files" (not blocks, not packs)
    pub foreign: BTreeSet<String>,
    /// set once a commit has been redone verbatim from the past: whether the redo reproduces the existing
    /// block byte for byte depends on hash-map order inside the block (two staged revisions of one
    /// object), so the number of blocks is no longer comparable across runs; states still are
    pub graph_unstable: bool,
}

impl Profile {
    /// draws a pair of cache capacities; `cap_shift` rotates the choice without touching the PRNG stream
    pub fn pick_caps(&self, r: &mut Rng) -> (u32, u32) {
        let n = self.caps.len();
        let a = r.below(n);
        let b = r.below(n);
        (self.caps[(a + self.cap_shift) % n], self.caps[(b + 2 * self.cap_shift) % n])
    }
}

pub fn set_caps(c: (u32, u32)) {
    std::env::set_var("MELDA_ARRAYDESCRIPTORS_CACHE_CAP", c.0.to_string());
    std::env::set_var("MELDA_DATA_CACHE_CAP", c.1.to_string());
}

pub fn open_with(ad: &Ad, caps: (u32, u32)) -> Outcome<Melda> {
    set_caps(caps);
    let ad = ad.clone();
    guard(move || Melda::new(ad))
}

fn arrays_in_conflict(o: &Obs) -> bool {
    o.in_conflict.iter().any(|u| u.starts_with('^'))
}

pub fn is_deleted_rev(r: &str) -> bool {
    refmodel::rev_parts(r).map(|p| p.1 == "d").unwrap_or(false)
}

/// locate the array stored under descriptor `^<parent>@<key>` in a read-back document
pub fn find_array<'a>(doc: &'a Value, desc: &str) -> Option<&'a Vec<Value>> {
    let body = desc.strip_prefix('^')?;
    // the key is the part after the LAST '@' that ends with the flatten suffix; parent ids may contain '@'
    fn walk<'a>(v: &'a Value, body: &str) -> Option<&'a Vec<Value>> {
        if let Value::Object(o) = v {
            let id = o.get("_id").and_then(|x| x.as_str()).unwrap_or("");
            for (k, x) in o {
                if k.ends_with(gen::FLAT) {
                    if let Value::Array(a) = x {
                        if body == format!("{}@{}", id, k) {
                            return Some(a);
                        }
                        for e in a {
                            if let Some(r) = walk(e, body) {
                                return Some(r);
                            }
                        }
                    } else if let Some(r) = walk(x, body) {
                        return Some(r);
                    }
                }
            }
        }
        None
    }
    walk(doc, body)
}

pub fn ids_of(a: &[Value]) -> Vec<String> {
    a.iter().map(|e| e.get("_id").and_then(|x| x.as_str()).unwrap_or("?").to_string()).collect()
}

impl World {
    pub fn new(seed: u64, case: u64, prof: Profile) -> World {
        let mut r = Rng::derive(seed, case, 0x11);
        let nrep = prof.nrep.0 + r.below(prof.nrep.1 - prof.nrep.0 + 1);
        let mut reps = vec![];
        let mut res = CaseResult::default();
        for i in 0..nrep {
            let path = if prof.backend == "mem" { None } else { Some(format!("{}/w_{}_{}_{}_{}", prof.tmp, prof.backend.replace('+', "_"), seed, case, i)) };
            let (ad, st) = match &path {
                None => store::mon_mem(),
                Some(p) => {
                    crate::backends::cleanup(p);
                    match crate::backends::make(&prof.backend, p) {
                        Outcome::Ok(b) => store::mon_over(b),
                        o => {
                            res.viol("C17", &format!("backend-open-failed-{}", prof.backend.replace('+', "-")), o.describe());
                            res.aborted = Some("backend cannot be opened".into());
                            store::mon_mem()
                        }
                    }
                }
            };
            let want_perm = r.chance(50);
            let pseed = r.next();
            if prof.perm_listing && (want_perm || prof.perm_salt != 0) {
                *st.perm_seed.lock().unwrap() = Some(pseed ^ prof.perm_salt);
            }
            let caps = prof.pick_caps(&mut r);
            let m = match open_with(&ad, caps) {
                Outcome::Ok(m) => m,
                o => {
                    res.viol(if matches!(o, Outcome::Panic(_)) { "C08" } else { "C03" }, "open-empty-failed", o.describe());
                    res.aborted = Some(format!("cannot open replica {}", i));
                    set_caps((16, 16));
                    Melda::new(store::plain_mem()).unwrap()
                }
            };
            let cur = observe(&m);
            reps.push(Rep {
                ad,
                st,
                m,
                behind: false,
                travelled: None,
                last_doc: None,
                doc_hist: vec![],
                clean: cur.clone(),
                cur,
                heads_log: vec![],
                prev_files: BTreeMap::new(),
                writes_seen: 0,
                dead: false,
                caps,
                path,
                commit_infos: BTreeMap::new(),
                redo: None,
            });
        }
        World { reps, prof, r, res, case, revtab: BTreeMap::new(), key_hash: BTreeMap::new(), step: 0, foreign: BTreeSet::new(), graph_unstable: false }
    }

    fn t(&mut self, s: String) {
        self.res.trace.push(s);
    }

    fn panic_viol(&mut self, prop: &'static str, what: &str, o: &str) {
        // a panic on well-formed input is always a C08 violation, and a violation of the op's property
        let site: String = o.split(" at ").next().unwrap_or(o).chars().take(80).collect();
        self.res.viol("C08", &format!("panic-in-{}", what), format!("{} (step {})", o, self.step));
        if prop != "C08" {
            self.res.viol(prop, &format!("{}-panicked", what), format!("{} [{}]", o, site));
        }
    }

    // ------------------------------------------------------------ audit
    pub fn audit(&mut self, i: usize, after: &Obs) {
        let files = store::dump(&self.reps[i].ad);
        // ---- C11: names, append-only, one key one hash everywhere
        let mut hashes: BTreeMap<String, String> = BTreeMap::new();
        for (k, v) in &files {
            hashes.insert(k.clone(), gen::sha(v));
        }
        let prev = std::mem::take(&mut self.reps[i].prev_files);
        for (k, h) in &prev {
            match hashes.get(k) {
                Some(x) if x == h => {}
                Some(_) => self.res.viol("C11", "item-modified", format!("r{} key {}", i, k)),
                None => self.res.viol("C11", "item-removed", format!("r{} key {}", i, k)),
            }
        }
        for (k, h) in &hashes {
            let ok = if let Some(st) = k.strip_suffix(".pack") {
                st == h
            } else if let Some(st) = k.strip_suffix(".delta") {
                st.splitn(2, '-').nth(1) == Some(h.as_str()) && refmodel::parse_block(st, &files[k]).is_some()
            } else {
                // other files are fine if the harness put them there (meld copies them along); the library
                // itself never creates such names
                self.foreign.contains(k)
            };
            if !ok && !prev.contains_key(k) {
                self.res.viol("C11", "name-not-content-hash", format!("r{} key {} sha {}", i, k, h));
            }
            match self.key_hash.get(k) {
                Some(x) if x != h => self.res.viol("C11", "bytes-differ-across-replicas", format!("key {}", k)),
                Some(_) => {}
                None => {
                    self.key_hash.insert(k.clone(), h.clone());
                }
            }
        }
        self.res.count("c11_items_checked", hashes.len() as u64);
        {
            let w = self.reps[i].st.writes.lock().unwrap();
            let seen = self.reps[i].writes_seen;
            let mut bad = vec![];
            for e in w.iter().skip(seen) {
                if e.ok && e.existed && !e.same_bytes {
                    bad.push(format!("r{} key {} rewritten with other bytes", i, e.key));
                }
            }
            let n = w.len();
            drop(w);
            self.res.count("c11_write_events", (n - seen) as u64);
            self.reps[i].writes_seen = n;
            for b in bad {
                self.res.viol("C11", "rewrite-different-bytes", b);
            }
        }
        self.reps[i].prev_files = hashes;

        // ---- C05 (rule applied to the library's own revision sets) and C19 (round trip)
        let mut ref_conf = BTreeSet::new();
        let mut max_leaves = 0usize;
        for (u, o) in &after.objects {
            let tree: BTreeMap<String, Option<String>> = o.revs.iter().map(|(r, p, _)| (r.clone(), p.clone())).collect();
            let (leaves, w) = refmodel::leaves_winner(&tree);
            max_leaves = max_leaves.max(leaves.len());
            let lw = if o.winner.starts_with("ERR") { None } else { Some(o.winner.clone()) };
            if lw != w {
                self.res.viol("C05", "winner-vs-rule", format!("r{} {}: lib {:?} rule {:?} tree {:?}", i, u, lw, w, tree));
            }
            if let Some(w) = &w {
                let mut exp = leaves.clone();
                exp.remove(w);
                let got: BTreeSet<String> = o.conflicting.iter().cloned().collect();
                if got != exp {
                    self.res.viol("C05", "conflicting-vs-rule", format!("r{} {}: {:?} vs {:?}", i, u, got, exp));
                }
            }
            if leaves.len() > 1 {
                ref_conf.insert(u.clone());
                if u.starts_with('^') {
                    self.res.feat_add("arr_conflict_obs", 1);
                } else {
                    self.res.feat_add("obj_conflict_obs", 1);
                }
            }
            for (r, p, _) in &o.revs {
                // C19: the identifier is a function of the content digest and the parent's identifier text
                if let (Some(p), Some((_, d, _))) = (p, refmodel::rev_parts(r)) {
                    if refmodel::child_rev(p, &d).as_deref() != Some(r.as_str()) {
                        self.res.viol("C19", "identifier-not-derived-from-digest-and-parent", format!("r{} {}: {} recorded with parent {} (canonical: {:?})", i, u, r, p, refmodel::child_rev(p, &d)));
                    }
                } else if p.is_none() && refmodel::rev_parts(r).map(|x| x.0 != 1 || x.2.is_some()).unwrap_or(true) {
                    self.res.viol("C19", "parentless-revision-not-a-creation", format!("r{} {}: {}", i, u, r));
                }
                let ok = match Revision::from(r) {
                    Ok(x) => x.to_string() == *r,
                    Err(_) => false,
                };
                if !ok {
                    self.res.viol("C19", "revision-string-roundtrip", format!("{} {}", u, r));
                }
                if let Some(idx) = refmodel::rev_parts(r).map(|p| p.0) {
                    if idx >= 10 {
                        self.res.feat_max("index_ge_10", 1);
                    }
                    if idx >= 100 {
                        self.res.feat_max("index_ge_100", 1);
                    }
                }
            }
            self.res.count("c05_objects_checked", 1);
        }
        self.res.feat_max("max_leaves", max_leaves as u64);
        if after.in_conflict != ref_conf && !after.broken {
            self.res.viol("C05", "in_conflict-vs-rule", format!("r{}: {:?} vs {:?}", i, after.in_conflict, ref_conf));
        }

        // ---- reference model over the raw files: C02 (closure), C13 (graph), C05 (wire format)
        let rs = refmodel::build(&files);
        let ndelta = files.keys().filter(|k| k.ends_with(".delta")).count();
        if rs.blocks.len() != ndelta {
            self.res.viol("C11", "block-unparseable-by-reference", format!("r{}: {} of {} parse", i, rs.blocks.len(), ndelta));
        }
        // C15: the stage export must be self-contained with respect to this replica's storage: every object
        // a staged change record names is special, or exported under "o", or held by a valid stored pack
        if let Some(st) = &after.stage {
            if let Ok(v) = serde_json::from_str::<Value>(st) {
                let objs = v.get("o").and_then(|o| o.as_object());
                if let Some(recs) = v.get("c").and_then(|c| c.as_array()) {
                    for rec in recs {
                        if let Some(d) = rec.as_array().and_then(|a| a.last()).and_then(|x| x.as_str()) {
                            let ok = refmodel::special(d) || objs.map(|o| o.contains_key(d)).unwrap_or(false) || rs.avail.contains(d);
                            if !ok {
                                self.res.viol("C15", "stage-export-misses-a-staged-object", format!("r{}: change {} names digest {} which is neither exported nor in any stored pack", i, rec, d));
                            }
                            self.res.count("c15_export_records_checked", 1);
                        }
                    }
                }
            }
        }
        let rep = &self.reps[i];
        let behind = rep.behind;
        let travelled = rep.travelled.clone();
        let mut applied: BTreeSet<String> = BTreeSet::new();
        let mut known: BTreeMap<String, (String, Vec<String>)> = BTreeMap::new();
        let mut viols: Vec<(&'static str, String, String)> = vec![];
        for (st, b) in &rs.blocks {
            let id = match DeltaId::from(st) {
                Ok(id) => id,
                Err(_) => continue,
            };
            match rep.m.get_delta(&id) {
                Ok(Some(d)) => {
                    let status = d.verif_status().to_string();
                    if status == "applied" {
                        applied.insert(st.clone());
                    }
                    let mut lp: Vec<String> = d.parents.clone().map(|p| p.iter().map(|x| x.to_string()).collect()).unwrap_or_default();
                    lp.sort();
                    let mut rp = b.parents.clone();
                    rp.sort();
                    if lp != rp {
                        viols.push(("C13", "parents-readback".into(), format!("r{} {}: {:?} vs {:?}", i, st, lp, rp)));
                    }
                    let li = d.info.clone().map(|m| Value::Object(m).to_string());
                    let ri = b.info.as_ref().map(|v| v.to_string());
                    if li != ri {
                        viols.push(("C13", "info-readback".into(), format!("r{} {}: {:?} vs {:?}", i, st, li, ri)));
                    }
                    let lk: Vec<String> = d.packs.clone().map(|p| p.into_iter().collect()).unwrap_or_default();
                    let mut rk = b.packs.clone();
                    rk.sort();
                    if lk != rk {
                        viols.push(("C13", "packs-readback".into(), format!("r{} {}", i, st)));
                    }
                    if d.id.as_ref().map(|x| x.to_string()) != Some(st.clone()) {
                        viols.push(("C13", "id-readback".into(), format!("r{} {}", i, st)));
                    }
                    known.insert(st.clone(), (status, lp));
                }
                _ => {
                    if !behind {
                        viols.push(("C02", "valid-block-unknown".into(), format!("r{} {}", i, st)));
                    }
                }
            }
        }
        // applied set is ancestor closed; heads = applied not named as parent by applied
        let mut heads = applied.clone();
        for a in &applied {
            for p in &known[a].1 {
                heads.remove(p);
                if !applied.contains(p) {
                    viols.push(("C13", "applied-not-ancestor-closed".into(), format!("r{} {} parent {}", i, a, p)));
                }
            }
        }
        if heads != after.anchors && !after.broken {
            viols.push(("C13", "heads-not-unreferenced-applied".into(), format!("r{}: anchors {:?} vs {:?}", i, after.anchors, heads)));
        }
        if rs.blocks.values().any(|b| b.parents.len() >= 2) {
            self.res.feat_max("multi_parent_block", 1);
        }
        if !behind && travelled.is_none() && !after.broken {
            for (st, _) in &rs.blocks {
                let ap = applied.contains(st);
                if ap != rs.complete.contains(st) {
                    viols.push(("C02", "status-vs-closure".into(), format!("r{} {}: status {:?} complete={}", i, st, known.get(st).map(|x| &x.0), rs.complete.contains(st))));
                }
            }
            if rs.complete.len() < rs.blocks.len() {
                self.res.feat_add("obs_with_heldback", 1);
            }
            if after.anchors != rs.heads {
                viols.push(("C13", "heads-vs-reference".into(), format!("r{}: {:?} vs {:?}", i, after.anchors, rs.heads)));
            }
            // committed part of the library's trees == trees derived from raw closed blocks
            let mut lib_objs = BTreeSet::new();
            for (u, o) in &after.objects {
                let tree: BTreeMap<String, Option<String>> = o.revs.iter().filter(|x| !x.2).map(|(r, p, _)| (r.clone(), p.clone())).collect();
                if tree.is_empty() {
                    continue;
                }
                lib_objs.insert(u.clone());
                match rs.trees.get(u) {
                    Some(t) if *t == tree => {}
                    other => viols.push(("C02", "tree-vs-raw-blocks".into(), format!("r{} {}: lib {:?} raw {:?}", i, u, tree, other))),
                }
                // the rule tied to the wire format
                if !after.staged() {
                    if let Some(t) = rs.trees.get(u) {
                        let (_, w) = refmodel::leaves_winner(t);
                        if w.as_deref() != Some(o.winner.as_str()) {
                            viols.push(("C05", "winner-vs-raw-blocks".into(), format!("r{} {}: {} vs {:?}", i, u, o.winner, w)));
                        }
                    }
                }
            }
            let ro: BTreeSet<String> = rs.trees.keys().cloned().collect();
            if lib_objs != ro {
                viols.push(("C02", "objects-vs-raw-blocks".into(), format!("r{}: {:?} vs {:?}", i, lib_objs, ro)));
            }
            self.res.count("c02_closure_checks", rs.blocks.len() as u64);
        }
        if let Some(target) = &travelled {
            // C14: state determined by the target blocks and their ancestors
            let (anc, trees) = refmodel::trees_until(&rs, target);
            if applied != anc && !after.staged() {
                // a commit made from the past adds one applied block
                let extra: Vec<&String> = applied.difference(&anc).collect();
                let missing: Vec<&String> = anc.difference(&applied).collect();
                if !missing.is_empty() || extra.len() > self.reps[i].heads_log.len() + 64 {
                    viols.push(("C14", "applied-vs-ancestors".into(), format!("r{}: missing {:?}", i, missing)));
                }
            }
            let _ = trees;
        }
        for (p, s, d) in viols {
            self.res.viol(p, &s, d);
        }

        // ---- C14 second clause / C10: historical values and parents stay retrievable and match their digest
        let mut pairs: Vec<(String, String, Option<String>)> = vec![];
        for (u, o) in &after.objects {
            for (r, p, _) in &o.revs {
                pairs.push((u.clone(), r.clone(), p.clone()));
            }
        }
        let nsample = pairs.len().min(5);
        let mut rr = Rng::derive(self.r.0, self.step as u64, 77);
        for _ in 0..nsample {
            let (u, r, p) = pairs[rr.below(pairs.len())].clone();
            let m = &self.reps[i].m;
            let val = match guard(|| m.get_value(&u, Some(&r))) {
                Outcome::Ok(v) => serde_json::to_string(&v).unwrap(),
                Outcome::Err(e) => format!("ERR {}", e),
                Outcome::Panic(pn) => format!("PANIC {}", pn),
            };
            let par = match guard(|| m.get_parent_revision(&u, &r)) {
                Outcome::Ok(v) => v,
                o => Some(o.describe()),
            };
            if par != p {
                self.res.viol("C14", "parent-differs", format!("r{} {} {}: {:?} vs {:?}", i, u, r, par, p));
            }
            let key = (u.clone(), r.clone());
            match self.revtab.get(&key) {
                Some((v0, p0)) => {
                    if *v0 != val || *p0 != par {
                        self.res.viol("C14", "historical-value-changed", format!("r{} {} {}: first {} / {:?}, now {} / {:?}", i, u, r, trunc(v0, 300), p0, trunc(&val, 300), par));
                    }
                }
                None => {
                    self.revtab.insert(key, (val.clone(), par.clone()));
                }
            }
            // content must match the digest inside the revision identifier
            if let Some((_, d, _)) = refmodel::rev_parts(&r) {
                if !refmodel::special(&d) && !val.starts_with("ERR") && !val.starts_with("PANIC") {
                    if gen::sha(val.as_bytes()) != d {
                        self.res.viol("C10", "value-does-not-match-revision-digest", format!("r{} {} {}: {}", i, u, r, trunc(&val, 300)));
                    }
                } else if val.starts_with("ERR") || val.starts_with("PANIC") {
                    self.res.viol("C14", "revision-not-retrievable", format!("r{} {} {}: {}", i, u, r, val));
                }
            }
            self.res.count("c14_revision_lookups", 1);
        }
    }

    // ------------------------------------------------------------ one step
    fn pick_op(&mut self, i: usize) -> usize {
        let mut w = self.prof.w;
        if self.reps.len() < 2 {
            w[OP_MELD_REFRESH] = 0;
            w[OP_MELD] = 0;
            w[OP_FILECOPY] = 0;
        }
        let rep = &self.reps[i];
        if rep.cur.in_conflict.is_empty() {
            w[OP_RESOLVE] = 0;
        } else {
            w[OP_RESOLVE] *= 2;
        }
        if rep.heads_log.is_empty() || rep.behind {
            w[OP_TRAVEL] = 0;
        } else if rep.cur.staged() {
            // with staged changes time travel must refuse; try it now and then
            w[OP_TRAVEL] = (w[OP_TRAVEL] / 3).max(1);
        }
        if rep.doc_hist.len() < 2 {
            w[OP_REVERT] = 0;
        }
        if !rep.cur.staged() {
            w[OP_REPLAY] = w[OP_REPLAY] / 3;
            w[OP_UNSTAGE] = w[OP_UNSTAGE] / 3;
        }
        self.r.weighted(&w)
    }

    pub fn run(&mut self) {
        let steps = self.prof.steps.0 + self.r.below(self.prof.steps.1 - self.prof.steps.0 + 1);
        for s in 0..steps {
            if self.res.aborted.is_some() {
                break;
            }
            self.step = s;
            let i = self.r.below(self.reps.len());
            if self.reps[i].dead {
                continue;
            }
            if self.reps[i].travelled.is_some() && self.reps[i].redo.is_some() && !self.reps[i].cur.staged() && self.r.chance(60) {
                // redo, from the past, exactly the edit and commit that an existing child block recorded
                let (d, inf) = self.reps[i].redo.take().unwrap();
                self.res.opkinds.push('R');
                progress(&format!("CALL case={} step={} r{} redo", self.case, s, i));
                self.res.feat_add("redo_from_past", 1);
                self.graph_unstable = true;
                self.do_update(i, d);
                if !self.reps[i].dead {
                    let o = observe(&self.reps[i].m);
                    self.reps[i].cur = o;
                    self.do_commit_with(i, Some(inf));
                }
                progress(&format!("RET case={} step={}", self.case, s));
                if !self.reps[i].dead {
                    let after = observe(&self.reps[i].m);
                    self.audit(i, &after);
                    let stems: Vec<String> = self.reps[i].prev_files.keys().filter_map(|k| k.strip_suffix(".delta").map(|s| s.to_string())).collect();
                    let gd = if self.graph_unstable { "-".to_string() } else { obs::graph_digest(&self.reps[i].m, &stems) };
                    self.res.digests.push(format!("{}:{}:{}", i, after.state_digest(), gd));
                    self.reps[i].cur = after;
                }
                continue;
            }
            if self.reps[i].travelled.is_none() {
                self.reps[i].redo = None;
            }
            let op = self.pick_op(i);
            self.res.opkinds.push((b'a' + op as u8) as char);
            progress(&format!("CALL case={} step={} r{} {}", self.case, s, i, OP_NAMES[op]));
            self.do_op(i, op);
            progress(&format!("RET case={} step={}", self.case, s));
            if !self.reps[i].dead {
                let after = observe(&self.reps[i].m);
                if after.broken {
                    self.panic_viol("C08", "observe", &after.doc.clone());
                    self.reps[i].dead = true;
                } else {
                    if after.doc.starts_with("PANIC") {
                        let d = after.doc.clone();
                        self.panic_viol("C08", "read", &d);
                    }
                    self.audit(i, &after);
                    let stems: Vec<String> = self.reps[i].prev_files.keys().filter_map(|k| k.strip_suffix(".delta").map(|s| s.to_string())).collect();
                    let gd = if self.graph_unstable { "-".to_string() } else { obs::graph_digest(&self.reps[i].m, &stems) };
                    self.res.digests.push(format!("{}:{}:{}", i, after.state_digest(), gd));
                    self.reps[i].cur = after;
                }
            }
        }
        if self.prof.final_sync && self.res.aborted.is_none() {
            progress(&format!("CALL case={} step=final sync", self.case));
            self.final_sync();
            progress(&format!("RET case={} step=final", self.case));
        }
    }

    fn next_doc(&mut self, i: usize) -> Value {
        let base = match &self.reps[i].last_doc {
            Some(d) => Some(d.clone()),
            None => {
                if self.reps[i].cur.doc_ok {
                    serde_json::from_str::<Value>(&self.reps[i].cur.doc).ok()
                } else {
                    None
                }
            }
        };
        let p = self.prof.doc.clone();
        match base {
            Some(b) => gen::mutate_doc(&mut self.r, &p, &b),
            None => gen::rand_doc(&mut self.r, &p),
        }
    }

    fn do_update(&mut self, i: usize, doc: Value) {
        let before = self.reps[i].cur.clone();
        let arrconf = arrays_in_conflict(&before);
        self.t(format!("r{}.update({})", i, doc));
        let dm = doc.as_object().unwrap().clone();
        let res = {
            let m = &self.reps[i].m;
            guard(|| m.update(dm.clone()))
        };
        self.res.count("updates", 1);
        match res {
            Outcome::Ok(_) => {}
            Outcome::Err(e) => {
                self.res.viol("C04", "update-returned-error", format!("{} doc {}", e, doc));
                return;
            }
            Outcome::Panic(p) => {
                self.panic_viol("C04", "update", &p);
                self.reps[i].dead = true;
                return;
            }
        }
        self.reps[i].last_doc = Some(doc.clone());
        self.reps[i].doc_hist.push(doc.clone());
        let exp = gen::expected_read(&doc);
        let (got, ok) = obs::read_doc(&self.reps[i].m);
        if !ok {
            if got.starts_with("PANIC") {
                self.panic_viol("C04", "read-after-update", &got);
            } else {
                self.res.viol("C04", "read-after-update-failed", format!("{} after update({})", got, doc));
            }
        } else if !arrconf {
            let es = serde_json::to_string(&exp).unwrap();
            if got != es {
                self.res.viol("C04", "readback-differs", format!("expected {} got {}", trunc(&es, 900), trunc(&got, 900)));
            }
            self.res.count("c04_exact_readbacks", 1);
            if before.objects.len() > 1 {
                self.res.feat_add("updates_on_history", 1);
            }
        } else {
            // every submitted object exactly once with the submitted content, nothing else
            let gv: Value = serde_json::from_str(&got).unwrap();
            let a = gen::tracked_objects(&exp);
            let b = gen::tracked_objects(&gv);
            if a != b {
                self.res.viol("C04", "readback-objects-differ-under-array-conflict", format!("expected objects {} got {}", trunc(&json!(a).to_string(), 800), trunc(&json!(b).to_string(), 800)));
            }
            self.res.count("c04_conflicted_readbacks", 1);
            self.res.feat_add("updates_in_array_conflict", 1);
        }
        // resubmission changes nothing
        let o1 = observe(&self.reps[i].m);
        let res2 = {
            let m = &self.reps[i].m;
            guard(|| m.update(dm.clone()))
        };
        if let Outcome::Panic(p) = &res2 {
            self.panic_viol("C04", "update", p);
            self.reps[i].dead = true;
            return;
        }
        let o2 = observe(&self.reps[i].m);
        if o1.s_value(true) != o2.s_value(true) || o1.has_staging != o2.has_staging || o1.stage != o2.stage {
            self.res.viol("C04", "resubmission-changes-state", format!("{} ;; stage {:?} vs {:?}", o1.diff(&o2), o1.stage.as_ref().map(|s| trunc(s, 300)), o2.stage.as_ref().map(|s| trunc(s, 300))));
        }
    }

    fn do_commit(&mut self, i: usize) {
        self.do_commit_with(i, None)
    }

    fn do_commit_with(&mut self, i: usize, forced_info: Option<Option<Map<String, Value>>>) {
        let before = self.reps[i].cur.clone();
        let keys_before: BTreeSet<String> = store::dump(&self.reps[i].ad).keys().cloned().collect();
        let nw_before = self.reps[i].st.writes.lock().unwrap().len();
        let drawn = if self.prof.hostile_info { gen::rand_info(&mut self.r, self.step as u64) } else { Some(json!({"n": self.step}).as_object().unwrap().clone()) };
        let info = match forced_info {
            Some(f) => f,
            None => drawn,
        };
        // occasionally the backend refuses one write of this commit (the pack or the block)
        let inject = before.has_staging && self.r.chance(self.prof.fault_pct);
        let which = self.r.below(2);
        if inject {
            let n = *self.reps[i].st.nwrites.lock().unwrap();
            *self.reps[i].st.fail_at.lock().unwrap() = vec![n + which];
        }
        self.t(format!("r{}.commit({}){}", i, info.as_ref().map(|m| trunc(&Value::Object(m.clone()).to_string(), 120)).unwrap_or("None".into()), if inject { format!(" [write #{} of this commit fails]", which) } else { String::new() }));
        let res = {
            let m = &self.reps[i].m;
            let inf = info.clone();
            guard(move || m.commit(inf))
        };
        if inject {
            let hit = self.reps[i].st.writes.lock().unwrap()[nw_before..].iter().any(|e| e.injected_fail);
            self.reps[i].st.fail_at.lock().unwrap().clear();
            if hit {
                self.res.feat_add("commits_with_write_failure", 1);
                match &res {
                    Outcome::Err(_) => {
                        let after = observe(&self.reps[i].m);
                        if !after.has_staging {
                            self.res.viol("C09", "failed-commit-lost-staging", format!("step {}", self.step));
                        }
                        if after.doc != before.doc {
                            self.res.viol("C09", "failed-commit-changed-document", before.diff(&after));
                        }
                        if after.anchors != before.anchors {
                            self.res.viol("C13", "failed-commit-changed-heads", format!("{:?} -> {:?}", before.anchors, after.anchors));
                        }
                        return;
                    }
                    Outcome::Ok(_) => {
                        // a commit that reports success must be durable, and the reopen comparison below decides that;
                        // succeeding in spite of a refused write (an internal retry, say) is not itself a violation
                        self.res.count("commits_succeeded_although_a_write_was_refused", 1);
                    }
                    Outcome::Panic(_) => {}
                }
            }
        }
        self.res.count("commits_called", 1);
        match res {
            Outcome::Ok(Some(an)) => {
                self.res.feat_add("commits", 1);
                if !before.staged() {
                    self.res.viol("C04", "commit-reported-without-changes", String::new());
                }
                let nstaged: usize = before.objects.values().map(|o| o.revs.iter().filter(|x| x.2).count()).sum();
                self.res.feat_max("max_staged_revs_per_commit", nstaged as u64);
                if before.objects.values().any(|o| o.revs.iter().filter(|x| x.2).count() >= 2) {
                    self.res.feat_add("commit_with_chain", 1);
                }
                if before.anchors.is_empty() && before.objects.values().any(|o| o.revs.iter().any(|x| x.2 && x.1.is_some())) {
                    self.res.feat_add("first_commit_with_update_record", 1);
                }
                if arrays_in_conflict(&before) {
                    self.res.feat_add("commit_with_array_conflict", 1);
                    if before.in_conflict.iter().any(|u| !u.starts_with('^')) {
                        self.res.feat_add("commit_with_array_and_object_conflict", 1);
                    }
                }
                let after = observe(&self.reps[i].m);
                if after.doc != before.doc {
                    self.res.viol("C12", "commit-changes-document", format!("{} -> {}", trunc(&before.doc, 700), trunc(&after.doc, 700)));
                }
                self.res.count("c12_maintenance_ops", 1);
                if after.has_staging || after.stage.is_some() {
                    self.res.viol("C15", "staging-left-after-commit", format!("has_staging={} stage={:?}", after.has_staging, after.stage.as_ref().map(|s| trunc(s, 300))));
                }
                // C13
                if an.len() != 1 {
                    self.res.viol("C13", "commit-returned-not-one-block", format!("{:?}", an));
                }
                let ans: BTreeSet<String> = an.iter().map(|a| a.to_string()).collect();
                if after.anchors != ans {
                    self.res.viol("C13", "new-block-not-only-head", format!("{:?} vs {:?}", after.anchors, ans));
                }
                let new_writes: Vec<store::WriteEvent> = self.reps[i].st.writes.lock().unwrap()[nw_before..].to_vec();
                let nb: Vec<&store::WriteEvent> = new_writes.iter().filter(|e| e.key.ends_with(".delta") && e.ok).collect();
                if nb.iter().any(|e| e.existed && e.same_bytes) {
                    // the commit reproduced, byte for byte, a block that storage already held
                    self.res.feat_add("commit_reproduced_existing_block", 1);
                }
                if nb.len() != 1 {
                    self.res.viol("C13", "commit-wrote-not-one-block", format!("{:?}", nb.iter().map(|e| &e.key).collect::<Vec<_>>()));
                }
                // ordering clause of C09 for the local writer
                let files = store::dump(&self.reps[i].ad);
                for a in &an {
                    if let Some(bytes) = files.get(&a.key()) {
                        if let Some(b) = refmodel::parse_block(&a.to_string(), bytes) {
                            let mut ps: BTreeSet<String> = b.parents.iter().cloned().collect();
                            if ps != before.anchors {
                                self.res.viol("C13", "parents-not-previous-heads", format!("{:?} vs heads before {:?}", ps, before.anchors));
                            }
                            if ps.len() >= 2 {
                                self.res.feat_add("multi_parent_commits", 1);
                            }
                            ps.clear();
                            for p in &b.parents {
                                if refmodel::stem_idx(p).map(|x| x.0 >= b.idx).unwrap_or(true) {
                                    self.res.viol("C13", "index-not-above-parent", format!("{} parent {}", a, p));
                                }
                            }
                            let inf = info.clone().map(|m| Value::Object(m).to_string());
                            if b.info.as_ref().map(|v| v.to_string()) != inf {
                                self.res.viol("C13", "info-not-as-committed", format!("{:?} vs {:?}", b.info, inf));
                            }
                            match self.reps[i].m.get_delta(a) {
                                Ok(Some(d)) => {
                                    if d.info.clone().map(|m| Value::Object(m).to_string()) != inf {
                                        self.res.viol("C13", "info-readback-after-commit", format!("{:?}", d.info));
                                    }
                                }
                                _ => self.res.viol("C13", "committed-block-unknown", a.to_string()),
                            }
                            let bpos = new_writes.iter().position(|e| e.key == a.key());
                            for p in &b.packs {
                                let pk = format!("{}.pack", p);
                                let ppos = new_writes.iter().position(|e| e.key == pk && e.ok);
                                let had = keys_before.contains(&pk);
                                if !had && !(ppos.is_some() && bpos.is_some() && ppos.unwrap() < bpos.unwrap()) {
                                    self.res.viol("C09", "block-written-before-its-pack", format!("{} pack {}", a, p));
                                }
                            }
                            self.res.count("c13_commit_checks", 1);
                        } else {
                            self.res.viol("C11", "committed-block-invalid", a.to_string());
                        }
                    } else {
                        self.res.viol("C03", "committed-block-not-in-storage", a.to_string());
                    }
                }
                // a pack written by this very commit can complete a foreign block that was lying in storage
                // held back for want of exactly that pack (same objects, same bytes): storage then holds
                // something the live replica has not applied until its next refresh, like after a meld
                if !self.reps[i].behind {
                    let rs = refmodel::build(&files);
                    let m = &self.reps[i].m;
                    let unlocked = rs.complete.iter().any(|st| DeltaId::from(st).ok().and_then(|id| m.get_delta(&id).ok().flatten()).map(|d| d.verif_status() != "applied").unwrap_or(false));
                    if unlocked {
                        self.reps[i].behind = true;
                        self.res.feat_add("own_pack_completed_a_held_back_block", 1);
                    }
                }
                // C03: reopen on the same storage
                if !self.reps[i].behind {
                    let caps = self.prof.clone().pick_caps(&mut self.r);
                    match open_with(&self.reps[i].ad, caps) {
                        Outcome::Ok(m2) => {
                            let o2 = observe(&m2);
                            if o2.s_value(false) != after.s_value(false) {
                                self.res.viol("C03", "reopen-differs", after.diff(&o2));
                            }
                            if o2.anchors != after.anchors {
                                self.res.viol("C03", "reopen-heads-differ", format!("{:?} vs {:?}", after.anchors, o2.anchors));
                            }
                            for k in files.keys() {
                                if let Some(st) = k.strip_suffix(".delta") {
                                    if let Ok(id) = DeltaId::from(st) {
                                        let a = self.reps[i].m.get_delta(&id).ok().flatten().map(|d| (d.to_json_string().ok(), d.verif_status()));
                                        let b = m2.get_delta(&id).ok().flatten().map(|d| (d.to_json_string().ok(), d.verif_status()));
                                        let strip = |x: &Option<(Option<String>, &'static str)>| x.clone().map(|(j, s)| (j.map(|j| strip_changes(&j)), s));
                                        if strip(&a) != strip(&b) {
                                            self.res.viol("C03", "reopen-block-differs", format!("{}: {:?} vs {:?}", st, a, b));
                                        }
                                    }
                                }
                            }
                            self.res.count("c03_reopens", 1);
                        }
                        o => {
                            if let Outcome::Panic(p) = &o {
                                self.panic_viol("C03", "reopen-after-commit", p);
                            } else {
                                self.res.viol("C03", "reopen-after-commit-failed", o.describe());
                            }
                        }
                    }
                    set_caps(self.reps[i].caps);
                }
                self.reps[i].heads_log.push((an.clone(), after.clone()));
                let idx = self.reps[i].heads_log.len() - 1;
                self.reps[i].commit_infos.insert(idx, info.clone());
                self.reps[i].clean = after;
            }
            Outcome::Ok(None) => {
                if before.has_staging {
                    self.res.viol("C03", "commit-skipped-with-staged-revisions", String::new());
                }
                let keys_after: BTreeSet<String> = store::dump(&self.reps[i].ad).keys().cloned().collect();
                if keys_after != keys_before {
                    self.res.viol("C04", "empty-commit-wrote-items", format!("{:?}", keys_after.difference(&keys_before).collect::<Vec<_>>()));
                }
                self.res.count("c04_empty_commits", 1);
            }
            Outcome::Err(e) => self.res.viol("C03", "commit-returned-error", e),
            Outcome::Panic(p) => {
                self.panic_viol("C03", "commit", &p);
                self.reps[i].dead = true;
            }
        }
    }

    fn two(&mut self, i: usize, j: usize) -> (&mut Rep, &mut Rep) {
        if i < j {
            let (x, y) = self.reps.split_at_mut(j);
            (&mut x[i], &mut y[0])
        } else {
            let (x, y) = self.reps.split_at_mut(i);
            (&mut y[0], &mut x[j])
        }
    }

    fn do_meld(&mut self, i: usize) -> bool {
        let n = self.reps.len();
        if self.prof.self_meld && self.r.chance(4) {
            // a replica melded into itself: nothing to learn, must simply return
            let before = self.reps[i].cur.clone();
            self.t(format!("r{}.meld(r{})", i, i));
            let m = &self.reps[i].m;
            let res = guard(|| m.meld(m));
            self.res.feat_add("self_melds", 1);
            match res {
                Outcome::Ok(items) => {
                    if !items.is_empty() {
                        // re-writing identical bytes modifies nothing (the write log decides C11): counted only
                        self.res.count("self_meld_reported_written_items", items.len() as u64);
                    }
                }
                Outcome::Err(e) => self.res.viol("C01", "self-meld-returned-error", e),
                Outcome::Panic(p) => {
                    self.panic_viol("C08", "self-meld", &p);
                    self.reps[i].dead = true;
                    return false;
                }
            }
            let after = observe(&self.reps[i].m);
            if after.doc != before.doc {
                self.res.viol("C12", "meld-changes-document", before.diff(&after));
            } else if after.s_value(true) != before.s_value(true) {
                // C12 speaks of the document; other visible differences after a meld are only counted
                self.res.count("meld_changed_state_but_not_document", 1);
            }
            return false;
        }
        let j = (i + 1 + self.r.below(n - 1)) % n;
        if self.reps[j].dead {
            return false;
        }
        let before = self.reps[i].cur.clone();
        if self.prof.self_meld && self.r.chance(6) {
            // a second handle opened on this replica's own storage, melded in both directions: both know the
            // same storage, except what the live handle has not refreshed yet; must return and copy nothing new
            match open_with(&self.reps[i].ad, self.reps[i].caps) {
                Outcome::Ok(twin) => {
                    self.t(format!("r{}.meld(second handle on the same storage) and back", i));
                    let m = &self.reps[i].m;
                    let keys_before: BTreeSet<String> = store::dump(&self.reps[i].ad).keys().cloned().collect();
                    let r1 = guard(|| m.meld(&twin));
                    let r2 = guard(|| twin.meld(m));
                    self.res.feat_add("twin_handle_melds", 1);
                    for r in [r1, r2] {
                        match r {
                            Outcome::Ok(_) => {}
                            Outcome::Err(e) => self.res.viol("C01", "twin-handle-meld-returned-error", e),
                            Outcome::Panic(p) => self.panic_viol("C08", "twin-handle-meld", &p),
                        }
                    }
                    let keys_after: BTreeSet<String> = store::dump(&self.reps[i].ad).keys().cloned().collect();
                    if keys_after != keys_before {
                        self.res.viol("C11", "meld-between-handles-on-one-storage-wrote-items", format!("{:?}", keys_after.difference(&keys_before).collect::<Vec<_>>()));
                    }
                }
                o => self.res.viol("C03", "second-handle-open-failed", o.describe()),
            }
            set_caps(self.reps[i].caps);
            return false;
        }
        // sometimes the destination refuses a class of writes during this meld (which items a meld writes
        // first depends on their names, which differ from run to run, so the fault is chosen by kind)
        let inject = self.r.chance(self.prof.fault_pct / 2);
        let which = ["", ".pack", ".delta"][self.r.below(3)];
        if inject {
            *self.reps[i].st.fail_suffix.lock().unwrap() = Some(which.to_string());
        }
        self.t(format!("r{}.meld(r{}){}", i, j, if inject { format!(" [every *{} write of this meld fails]", which) } else { String::new() }));
        let (a, b) = self.two(i, j);
        let res = guard(|| a.m.meld(&b.m));
        if inject {
            *self.reps[i].st.fail_suffix.lock().unwrap() = None;
            self.res.feat_add("melds_with_write_failure", 1);
        }
        match res {
            Outcome::Ok(items) => {
                self.res.count("meld_items", items.len() as u64);
                self.res.feat_add("melds", 1);
            }
            Outcome::Err(e) => self.res.viol("C01", "meld-returned-error", e),
            Outcome::Panic(p) => {
                self.panic_viol("C12", "meld", &p);
                self.reps[i].dead = true;
                return false;
            }
        }
        self.reps[i].behind = true;
        let after = observe(&self.reps[i].m);
        if after.doc != before.doc {
            self.res.viol("C12", "meld-changes-document", before.diff(&after));
        } else if after.s_value(true) != before.s_value(true) || after.anchors != before.anchors || after.stage != before.stage {
            self.res.count("meld_changed_state_but_not_document", 1);
        }
        self.res.count("c12_maintenance_ops", 1);
        true
    }

    /// refresh or reload; `reload`=true for reload
    fn do_refresh(&mut self, i: usize, reload: bool) {
        let before = self.reps[i].cur.clone();
        let staged = before.staged();
        let was_behind = self.reps[i].behind || self.reps[i].travelled.is_some();
        let name = if reload { "reload" } else { "refresh" };
        self.t(format!("r{}.{}", i, name));
        let res = {
            let rep = &mut self.reps[i];
            if reload {
                guard(|| rep.m.reload())
            } else {
                guard(|| rep.m.refresh())
            }
        };
        match res {
            Outcome::Ok(()) => {
                let after = observe(&self.reps[i].m);
                if before.has_staging {
                    self.res.viol("C15", &format!("{}-ran-with-staged-changes", name), format!("has_staging={} stage={:?}", before.has_staging, before.stage.as_ref().map(|s| trunc(s, 200))));
                } else if staged && after.stage != before.stage {
                    // only unreferenced staged objects were present: running is fine, dropping them is not
                    self.res.viol("C15", &format!("{}-dropped-staged-objects", name), format!("{:?} -> {:?}", before.stage.as_ref().map(|s| trunc(s, 200)), after.stage.as_ref().map(|s| trunc(s, 200))));
                }
                let staged = before.has_staging;
                if !was_behind && !staged {
                    if after.doc != before.doc {
                        self.res.viol("C12", &format!("{}-without-news-changes-document", name), before.diff(&after));
                    } else if after.s_value(true) != before.s_value(true) || after.anchors != before.anchors {
                        // same storage, same document, other winners / conflicts / revision sets / heads: C12 speaks of the
                        // document only; this is the same storage showing two states (C01: full reload vs what was loaded)
                        self.res.viol("C01", &format!("{}-without-news-changes-state", name), before.diff(&after));
                    }
                    self.res.count("c12_maintenance_ops", 1);
                }
                self.reps[i].behind = false;
                self.reps[i].travelled = None;
                if !staged {
                    // C02: incremental == full reload of the same storage
                    if !reload {
                        match open_with(&self.reps[i].ad, self.reps[i].caps) {
                            Outcome::Ok(m2) => {
                                let o2 = observe(&m2);
                                if o2.s_value(false) != after.s_value(false) || o2.anchors != after.anchors {
                                    self.res.viol("C02", "refresh-differs-from-reload", after.diff(&o2));
                                }
                                self.res.count("c02_refresh_vs_reload", 1);
                            }
                            o => self.res.viol("C02", "reload-of-same-storage-failed", o.describe()),
                        }
                    }
                    let an_now = self.reps[i].m.get_anchors();
                    self.reps[i].heads_log.push((an_now, after.clone()));
                    if after.anchors.len() >= 2 {
                        self.res.feat_add("multi_head_states", 1);
                    }
                    self.reps[i].clean = after;
                    self.reps[i].last_doc = None;
                }
            }
            Outcome::Err(e) => {
                if !staged {
                    self.res.viol(if reload { "C14" } else { "C02" }, &format!("{}-returned-error", name), e);
                } else {
                    // refused: nothing may have changed
                    let after = observe(&self.reps[i].m);
                    if after.s_value(true) != before.s_value(true) || after.stage != before.stage || after.anchors != before.anchors {
                        self.res.viol("C15", &format!("refused-{}-changed-state", name), format!("{} ;; {}", e, before.diff(&after)));
                        self.res.viol("C12", &format!("refused-{}-changed-document", name), format!("{} ;; {}", e, before.diff(&after)));
                    }
                    self.res.count("c15_refusals", 1);
                }
            }
            Outcome::Panic(p) => {
                self.panic_viol(if reload { "C14" } else { "C02" }, name, &p);
                self.reps[i].dead = true;
            }
        }
    }

    fn do_travel(&mut self, i: usize) {
        let k = self.r.below(self.reps[i].heads_log.len());
        let (h, exp) = self.reps[i].heads_log[k].clone();
        if h.is_empty() {
            return;
        }
        let latest = self.reps[i].cur.clone();
        if latest.staged() {
            self.t(format!("r{}.reload_until(heads_log[{}]) with staged changes", i, k));
            let res = {
                let m = &self.reps[i].m;
                guard(|| m.reload_until(&h))
            };
            let after = observe(&self.reps[i].m);
            match res {
                Outcome::Ok(()) => self.res.viol("C15", "reload_until-ran-with-staged-changes", format!("has_staging={} stage={:?}", latest.has_staging, latest.stage.as_ref().map(|s| trunc(s, 200)))),
                Outcome::Err(e) => {
                    if after.s_value(true) != latest.s_value(true) || after.stage != latest.stage || after.anchors != latest.anchors {
                        self.res.viol("C15", "refused-reload_until-changed-state", format!("{} ;; {}", e, latest.diff(&after)));
                        self.res.viol("C12", "refused-reload_until-changed-document", format!("{} ;; {}", e, latest.diff(&after)));
                    }
                    self.res.count("c15_refusals", 1);
                }
                Outcome::Panic(p) => {
                    self.panic_viol("C15", "reload_until", &p);
                    self.reps[i].dead = true;
                }
            }
            return;
        }
        if !self.reps[i].behind && self.reps[i].travelled.is_none() && self.r.chance(50) {
            self.travel_arbitrary(i, &latest);
            if self.reps[i].dead {
                return;
            }
        }
        let hs: BTreeSet<String> = h.iter().map(|x| x.to_string()).collect();
        self.t(format!("r{}.reload_until(heads_log[{}] = {} heads)", i, k, h.len()));
        let res = {
            let m = &self.reps[i].m;
            guard(|| m.reload_until(&h))
        };
        self.res.feat_add("travels", 1);
        if h.len() >= 2 {
            self.res.feat_add("multi_head_travels", 1);
        }
        match res {
            Outcome::Ok(()) => {
                let st = observe(&self.reps[i].m);
                if st.s_value(false) != exp.s_value(false) {
                    self.res.viol("C14", "past-state-differs", exp.diff(&st));
                }
                if st.anchors != hs {
                    self.res.viol("C14", "heads-after-travel", format!("{:?} vs {:?}", st.anchors, hs));
                }
                // reference: winners from the raw blocks that are ancestors of the target
                let files = store::dump(&self.reps[i].ad);
                let rs = refmodel::build(&files);
                let (_, trees) = refmodel::trees_until(&rs, &hs);
                let lo: BTreeSet<String> = st.objects.keys().cloned().collect();
                let ro: BTreeSet<String> = trees.keys().cloned().collect();
                if lo != ro {
                    self.res.viol("C14", "objects-vs-ancestor-blocks", format!("{:?} vs {:?}", lo, ro));
                } else {
                    for (u, t) in &trees {
                        let (_, w) = refmodel::leaves_winner(t);
                        if w.as_deref() != Some(st.objects[u].winner.as_str()) {
                            self.res.viol("C14", "winner-vs-ancestor-blocks", format!("{}: {} vs {:?}", u, st.objects[u].winner, w));
                        }
                    }
                }
                // new_until on a fresh replica
                set_caps(self.reps[i].caps);
                let ad = self.reps[i].ad.clone();
                match guard(|| Melda::new_until(ad, &h)) {
                    Outcome::Ok(m2) => {
                        let o2 = observe(&m2);
                        if o2.s_value(false) != exp.s_value(false) {
                            self.res.viol("C14", "new_until-differs", exp.diff(&o2));
                        }
                        // a replica opened in the past catches up with one refresh: same as a full load
                        if self.r.chance(50) {
                            let mut m2 = m2;
                            let rf = guard(|| m2.refresh());
                            set_caps(self.reps[i].caps);
                            let ad2 = self.reps[i].ad.clone();
                            match (rf, guard(|| Melda::new(ad2))) {
                                (Outcome::Ok(()), Outcome::Ok(full)) => {
                                    let (a, b) = (observe(&m2), observe(&full));
                                    if a.s_value(false) != b.s_value(false) || a.anchors != b.anchors {
                                        self.res.viol("C02", "refresh-from-the-past-differs-from-full-load", b.diff(&a));
                                    }
                                    self.res.count("c14_refresh_from_past_checked", 1);
                                }
                                (Outcome::Panic(p), _) => self.panic_viol("C02", "refresh", &p),
                                (Outcome::Err(e), _) => self.res.viol("C02", "refresh-from-the-past-failed", e),
                                _ => {}
                            }
                        }
                    }
                    o => self.res.viol("C14", "new_until-failed", o.describe()),
                }
                self.res.count("c14_travels_checked", 1);
                if self.r.chance(65) {
                    self.t(format!("r{}.reload (back)", i));
                    let r2 = {
                        let m = &self.reps[i].m;
                        guard(|| m.reload())
                    };
                    match r2 {
                        Outcome::Ok(()) => {
                            let back = observe(&self.reps[i].m);
                            if back.s_value(false) != latest.s_value(false) || back.anchors != latest.anchors {
                                self.res.viol("C14", "reload-does-not-return-to-latest", latest.diff(&back));
                            }
                            self.reps[i].clean = back;
                        }
                        o => {
                            if let Outcome::Panic(p) = &o {
                                self.panic_viol("C14", "reload", p);
                                self.reps[i].dead = true;
                            } else {
                                self.res.viol("C14", "reload-after-travel-failed", o.describe());
                            }
                        }
                    }
                } else {
                    self.reps[i].behind = true;
                    self.reps[i].travelled = Some(hs);
                    self.reps[i].clean = st;
                    self.reps[i].last_doc = None;
                    self.res.feat_add("stays_in_past", 1);
                    // a later commit made directly on top of these heads can be redone verbatim
                    let mut redo = None;
                    for (j, inf) in self.reps[i].commit_infos.iter() {
                        if *j <= k {
                            continue;
                        }
                        let (aj, oj) = &self.reps[i].heads_log[*j];
                        let child_of_h = aj.iter().all(|a| matches!(self.reps[i].m.get_delta(a), Ok(Some(d)) if d.parents.as_ref() == Some(&h)));
                        if child_of_h && oj.doc_ok {
                            if let Ok(mut d) = serde_json::from_str::<Value>(&oj.doc) {
                                d.as_object_mut().map(|o| o.remove("_id"));
                                redo = Some((d, inf.clone()));
                                break;
                            }
                        }
                    }
                    self.reps[i].redo = redo;
                }
            }
            Outcome::Err(e) => self.res.viol("C14", "reload_until-returned-error", e),
            Outcome::Panic(p) => {
                self.panic_viol("C14", "reload_until", &p);
                self.reps[i].dead = true;
            }
        }
    }

    /// Time travel to an ARBITRARY non-empty set of applied blocks (not a head set the replica ever had,
    /// possibly holding a block together with one of its ancestors): the state must be the one the
    /// reference model derives from those blocks and their ancestors, the heads the maximal chosen blocks,
    /// a replica opened with new_until must agree, and reload() must come back to the latest state.
    fn travel_arbitrary(&mut self, i: usize, latest: &Obs) {
        let files = store::dump(&self.reps[i].ad);
        let rs = refmodel::build(&files);
        let cur_heads: BTreeSet<String> = latest.anchors.clone();
        let (applied, _) = refmodel::trees_until(&rs, &cur_heads);
        if applied.len() < 3 {
            return;
        }
        // choose by content-derived keys, never by item names
        let keys = refmodel::canonical_item_keys(&files);
        let mut cand: Vec<(String, String)> = applied.iter().filter_map(|b| keys.get(&format!("{}.delta", b)).map(|k| (k.clone(), b.clone()))).collect();
        cand.sort();
        let n = 1 + self.r.below(3.min(cand.len()));
        let mut chosen: BTreeSet<String> = BTreeSet::new();
        for _ in 0..n {
            chosen.insert(cand[self.r.below(cand.len())].1.clone());
        }
        let h: BTreeSet<DeltaId> = chosen.iter().filter_map(|b| DeltaId::from(b).ok()).collect();
        if h.len() != chosen.len() {
            return;
        }
        let (anc, trees) = refmodel::trees_until(&rs, &chosen);
        // maximal chosen blocks: those that are not a proper ancestor of another chosen block
        let mut maximal = chosen.clone();
        for c in &chosen {
            let one: BTreeSet<String> = std::iter::once(c.clone()).collect();
            let (a, _) = refmodel::trees_until(&rs, &one);
            for x in a {
                if x != *c {
                    maximal.remove(&x);
                }
            }
        }
        self.t(format!("r{}.reload_until(arbitrary set of {} blocks, {} maximal, {} ancestors)", i, chosen.len(), maximal.len(), anc.len()));
        let res = {
            let m = &self.reps[i].m;
            guard(|| m.reload_until(&h))
        };
        match res {
            Outcome::Ok(()) => {
                let st = observe(&self.reps[i].m);
                if st.anchors != maximal {
                    self.beyond("heads-after-arbitrary-travel", format!("{:?} vs maximal chosen {:?}", st.anchors, maximal));
                }
                let lo: BTreeSet<String> = st.objects.keys().cloned().collect();
                let ro: BTreeSet<String> = trees.keys().cloned().collect();
                if lo != ro {
                    self.beyond("arbitrary-travel-objects-vs-ancestor-blocks", format!("{:?} vs {:?}", lo, ro));
                } else {
                    for (u, t) in &trees {
                        let (leaves, w) = refmodel::leaves_winner(t);
                        if w.as_deref() != Some(st.objects[u].winner.as_str()) {
                            self.beyond("arbitrary-travel-winner-vs-ancestor-blocks", format!("{}: {} vs {:?}", u, st.objects[u].winner, w));
                        }
                        let conf: BTreeSet<String> = leaves.iter().filter(|l| Some(l.as_str()) != w.as_deref()).cloned().collect();
                        let got: BTreeSet<String> = st.objects[u].conflicting.iter().cloned().collect();
                        if conf != got {
                            self.beyond("arbitrary-travel-conflicts-vs-ancestor-blocks", format!("{}: {:?} vs {:?}", u, got, conf));
                        }
                    }
                }
                set_caps(self.reps[i].caps);
                let ad = self.reps[i].ad.clone();
                match guard(|| Melda::new_until(ad, &h)) {
                    Outcome::Ok(m2) => {
                        let o2 = observe(&m2);
                        if o2.s_value(false) != st.s_value(false) || o2.anchors != st.anchors {
                            self.beyond("arbitrary-travel-new_until-differs", st.diff(&o2));
                        }
                    }
                    o => self.beyond("arbitrary-travel-new_until-failed", o.describe()),
                }
                self.res.count("c14_arbitrary_travels_checked", 1);
                if chosen.len() > maximal.len() {
                    self.res.count("c14_arbitrary_travels_with_ancestor_and_descendant", 1);
                }
                let r2 = {
                    let m = &self.reps[i].m;
                    guard(|| m.reload())
                };
                match r2 {
                    Outcome::Ok(()) => {
                        let back = observe(&self.reps[i].m);
                        if back.s_value(false) != latest.s_value(false) || back.anchors != latest.anchors {
                            self.res.viol("C14", "reload-does-not-return-to-latest", latest.diff(&back));
                        }
                    }
                    Outcome::Panic(p) => {
                        self.panic_viol("C14", "reload", &p);
                        self.reps[i].dead = true;
                    }
                    o => self.res.viol("C14", "reload-after-travel-failed", o.describe()),
                }
            }
            Outcome::Err(e) => {
                // refusing a set that never was a head set is an answer; the replica must still come back
                self.beyond("reload_until-refused-arbitrary-set", e);
                let r2 = {
                    let m = &self.reps[i].m;
                    guard(|| m.reload())
                };
                let back = observe(&self.reps[i].m);
                if !r2.is_ok() || back.s_value(false) != latest.s_value(false) || back.anchors != latest.anchors {
                    self.res.viol("C14", "reload-does-not-return-to-latest", format!("{} ;; {}", r2.describe(), latest.diff(&back)));
                }
            }
            Outcome::Panic(p) => {
                self.panic_viol("C14", "reload_until", &p);
                self.reps[i].dead = true;
            }
        }
    }

    fn beyond(&mut self, what: &str, detail: String) {
        self.res.count("c14_beyond_quantifier_disagreements", 1);
        self.t(format!("beyond C14's quantifier: {} {}", what, trunc(&detail, 200)));
    }

    fn do_resolve(&mut self, i: usize) {
        let before = self.reps[i].cur.clone();
        let conf: Vec<String> = before.in_conflict.iter().cloned().collect();
        if conf.is_empty() {
            return;
        }
        let u = conf[self.r.below(conf.len())].clone();
        let o = &before.objects[&u];
        let w = o.winner.clone();
        let mut leaves: Vec<String> = o.conflicting.clone();
        leaves.push(w.clone());
        leaves.sort();
        let chosen = leaves[self.r.below(leaves.len())].clone();
        self.resolve_check(i, &u, &chosen, &before);
        self.reps[i].last_doc = None;
    }

    pub fn resolve_check(&mut self, i: usize, u: &str, chosen: &str, before: &Obs) {
        let w = before.objects[u].winner.clone();
        let nleaves = before.objects[u].conflicting.len() + 1;
        let m = &self.reps[i].m;
        let chosen_val = m.get_value(u, Some(chosen)).ok();
        let chosen_order = if u.starts_with('^') { m.verif_array_order(u, chosen).ok() } else { None };
        self.res.trace.push(format!("r{}.resolve_as({:?}, {}) winner={} leaves={}", i, u, chosen, w, nleaves));
        let res = guard(|| m.resolve_as(u, chosen));
        self.res.feat_add("resolutions", 1);
        if nleaves >= 3 {
            self.res.feat_add("resolutions_3plus_leaves", 1);
        }
        if u.starts_with('^') {
            self.res.feat_add("array_resolutions", 1);
        }
        match res {
            Outcome::Ok(_) => {}
            Outcome::Err(e) => {
                self.res.viol("C07", "resolve-returned-error", format!("{} {} {}", u, chosen, e));
                return;
            }
            Outcome::Panic(p) => {
                self.panic_viol("C07", "resolve_as", &p);
                self.reps[i].dead = true;
                return;
            }
        }
        let after = observe(&self.reps[i].m);
        if after.in_conflict.contains(u) {
            self.res.viol("C07", "still-in-conflict", format!("{} chosen {}", u, chosen));
        }
        if chosen == w && after.doc != before.doc {
            self.res.viol("C07", "choosing-winner-changes-document", format!("{} -> {}", trunc(&before.doc, 600), trunc(&after.doc, 600)));
        }
        if !u.starts_with('^') {
            let nv = self.reps[i].m.get_value(u, None).ok();
            if is_deleted_rev(chosen) {
                self.res.feat_add("deleted_leaf_chosen", 1);
                let nw = after.objects.get(u).map(|o| o.winner.clone()).unwrap_or_default();
                if !is_deleted_rev(&nw) {
                    self.res.viol("C07", "deleted-choice-not-deleted", format!("{}: new winner {} value {:?}", u, nw, nv));
                }
                if after.doc_ok {
                    let dv: Value = serde_json::from_str(&after.doc).unwrap();
                    if gen::tracked_objects(&dv).iter().any(|(id, _)| id == u) {
                        self.res.viol("C07", "deleted-choice-still-in-document", format!("{}", u));
                    }
                }
            } else if nv != chosen_val {
                self.res.viol("C07", "value-not-as-chosen", format!("{}: {:?} vs {:?}", u, nv, chosen_val));
            }
        } else if is_deleted_rev(chosen) {
            // an array descriptor resolved in favour of its deletion stays deleted
            self.res.feat_add("deleted_leaf_chosen", 1);
            self.res.feat_add("deleted_array_leaf_chosen", 1);
            let nw = after.objects.get(u).map(|o| o.winner.clone()).unwrap_or_default();
            if !is_deleted_rev(&nw) {
                self.res.viol("C07", "deleted-array-choice-not-deleted", format!("{}: chose {} but the winner is now {}", u, chosen, nw));
            }
        } else if let (Some(lo), true) = (chosen_order, after.doc_ok) {
            // surviving elements of the chosen leaf keep its relative order
            let dv: Value = serde_json::from_str(&after.doc).unwrap();
            if let Some(arr) = find_array(&dv, u) {
                let res_ids = ids_of(arr);
                let lo: Vec<String> = lo.iter().filter_map(|x| x.as_str().map(|s| s.to_string())).collect();
                let a1: Vec<&String> = lo.iter().filter(|e| res_ids.contains(e)).collect();
                let a2: Vec<&String> = res_ids.iter().filter(|e| lo.contains(e)).collect();
                if a1 != a2 {
                    self.res.viol("C07", "array-choice-order-not-kept", format!("{}: chosen {:?} result {:?}", u, lo, res_ids));
                }
            }
        }
        self.res.count("c07_resolutions_checked", 1);
    }

    fn do_unstage(&mut self, i: usize, replay: bool) {
        let before = self.reps[i].cur.clone();
        let exp = self.reps[i].clean.clone();
        let stg = match self.reps[i].m.stage() {
            Ok(s) => s,
            Err(e) => {
                self.res.viol("C15", "stage-export-failed", format!("{}", e));
                return;
            }
        };
        let nstaged: usize = before.objects.values().map(|o| o.revs.iter().filter(|x| x.2).count()).sum();
        // the staged changes are discarded either by unstage() or, like an application restart that
        // persisted the export, by opening a new replica on the same storage
        let by_restart = replay && !self.reps[i].behind && self.reps[i].travelled.is_none() && self.r.chance(35);
        self.t(format!("r{}.{} (staged revs {}){}", i, if by_restart { "restart" } else { "unstage" }, nstaged, if replay { " + replay_stage" } else { "" }));
        let res = if by_restart {
            let caps = self.prof.clone().pick_caps(&mut self.r);
            match open_with(&self.reps[i].ad, caps) {
                Outcome::Ok(m2) => {
                    self.reps[i].m = m2;
                    self.reps[i].caps = caps;
                    self.res.feat_add("restarts_with_persisted_stage", 1);
                    Outcome::Ok(())
                }
                Outcome::Err(e) => Outcome::Err(e),
                Outcome::Panic(p) => Outcome::Panic(p),
            }
        } else {
            let rep = &mut self.reps[i];
            guard(|| rep.m.unstage())
        };
        match res {
            Outcome::Ok(()) => {}
            Outcome::Err(e) => {
                self.res.viol("C15", "unstage-returned-error", e);
                return;
            }
            Outcome::Panic(p) => {
                self.panic_viol("C15", "unstage", &p);
                self.reps[i].dead = true;
                return;
            }
        }
        let st = observe(&self.reps[i].m);
        if st.s_value(true) != exp.s_value(true) || st.anchors != exp.anchors {
            self.res.viol("C15", "unstage-does-not-restore-clean-state", exp.diff(&st));
        }
        if st.has_staging || st.stage.is_some() {
            self.res.viol("C15", "staging-left-after-unstage", format!("{:?}", st.stage.as_ref().map(|s| trunc(s, 300))));
        }
        self.res.count("c15_unstages", 1);
        if nstaged >= 3 {
            self.res.feat_add("big_stage_roundtrips", 1);
        }
        if replay {
            // sometimes news arrive between discarding and replaying: the replay then lands on a newer
            // state (no exact expectation, it must simply work and leave a state the audits accept)
            let mut moved_on = false;
            if !by_restart && self.reps.len() > 1 && self.r.chance(15) {
                let n = self.reps.len();
                let j = (i + 1 + self.r.below(n - 1)) % n;
                if !self.reps[j].dead {
                    self.t(format!("r{}.meld(r{}) + refresh between unstage and replay", i, j));
                    let (a, b) = self.two(i, j);
                    let mr = guard(|| {
                        a.m.meld(&b.m)?;
                        a.m.refresh()
                    });
                    match mr {
                        Outcome::Ok(()) => {
                            let o = observe(&self.reps[i].m);
                            moved_on = o.s_value(false) != st.s_value(false);
                            self.reps[i].behind = false;
                            self.reps[i].clean = o;
                        }
                        Outcome::Err(e) => self.res.viol("C01", "meld-refresh-returned-error", e),
                        Outcome::Panic(p) => {
                            self.panic_viol("C08", "meld+refresh", &p);
                            self.reps[i].dead = true;
                            return;
                        }
                    }
                }
            }
            let twice = self.r.chance(25);
            let res = {
                let m = &self.reps[i].m;
                guard(|| m.replay_stage(&stg))
            };
            if moved_on {
                self.res.feat_add("replays_onto_newer_state", 1);
                if let Outcome::Panic(p) = &res {
                    self.panic_viol("C15", "replay_stage", p);
                    self.reps[i].dead = true;
                }
                self.reps[i].last_doc = None;
                return;
            }
            match res {
                Outcome::Ok(()) => {
                    let st2 = observe(&self.reps[i].m);
                    if st2.s_value(true) != before.s_value(true) || st2.has_staging != before.has_staging {
                        self.res.viol("C15", "replay-does-not-restore-staged-state", before.diff(&st2));
                    }
                    // the change records must come back exactly; staged *objects* may legitimately be fewer:
                    // replay does not re-stage an object that a committed pack already holds
                    let changes = |s: &Option<String>| s.as_ref().and_then(|s| serde_json::from_str::<Value>(s).ok()).and_then(|v| v.get("c").cloned());
                    if changes(&st2.stage) != changes(&before.stage) {
                        self.res.viol("C15", "stage-export-differs-after-replay", format!("{:?} vs {:?}", before.stage.as_ref().map(|s| trunc(s, 400)), st2.stage.as_ref().map(|s| trunc(s, 400))));
                    }
                    self.res.count("c15_replays", 1);
                    if twice {
                        // replaying the same export a second time is not something C15 speaks about: it must
                        // return (C08); whether it is a no-op is only counted
                        let again = {
                            let m = &self.reps[i].m;
                            guard(|| m.replay_stage(&stg))
                        };
                        if let Outcome::Panic(p) = &again {
                            self.panic_viol("C08", "replay_stage", p);
                            self.reps[i].dead = true;
                            return;
                        }
                        let st3 = observe(&self.reps[i].m);
                        if !again.is_ok() || st3.s_value(true) != before.s_value(true) {
                            self.res.count("c15_second_replay_not_a_noop", 1);
                            self.reps[i].last_doc = None;
                        }
                        self.res.count("c15_second_replays", 1);
                    }
                }
                Outcome::Err(e) => self.res.viol("C15", "replay-returned-error", e),
                Outcome::Panic(p) => {
                    self.panic_viol("C15", "replay_stage", &p);
                    self.reps[i].dead = true;
                }
            }
        } else {
            self.reps[i].last_doc = None;
        }
    }

    fn do_snapshot(&mut self, i: usize) {
        let before = self.reps[i].cur.clone();
        self.t(format!("r{}.stage_full_snapshot", i));
        let res = {
            let m = &self.reps[i].m;
            guard(|| m.stage_full_snapshot())
        };
        match res {
            Outcome::Ok(()) => {
                let (doc, _) = obs::read_doc(&self.reps[i].m);
                if doc != before.doc {
                    self.res.viol("C12", "snapshot-changes-document", format!("{} -> {}", trunc(&before.doc, 600), trunc(&doc, 600)));
                }
                self.res.count("c12_maintenance_ops", 1);
                if arrays_in_conflict(&before) {
                    self.res.feat_add("maintenance_with_array_conflict", 1);
                }
            }
            // an error is an answer (C08) and changes nothing (checked above for Ok): counted only
            Outcome::Err(_) => self.res.count("snapshot_answered_with_error", 1),
            Outcome::Panic(p) => {
                self.panic_viol("C12", "stage_full_snapshot", &p);
                self.reps[i].dead = true;
            }
        }
    }

    fn do_reopen(&mut self, i: usize) {
        let behind = self.reps[i].behind;
        let exp = self.reps[i].clean.clone();
        let caps = self.prof.clone().pick_caps(&mut self.r);
        self.t(format!("r{}.reopen caps={:?}", i, caps));
        if let Some(p) = self.reps[i].path.clone() {
            if crate::backends::persistent(&self.prof.backend) {
                // a genuinely new adapter object on the same directory / database file
                match crate::backends::make(&self.prof.backend, &p) {
                    Outcome::Ok(b) => {
                        let perm = *self.reps[i].st.perm_seed.lock().unwrap();
                        let (ad, st) = store::mon_over(b);
                        *st.perm_seed.lock().unwrap() = perm;
                        // keep the write history: it orders items independently of their names
                        let old = self.reps[i].st.writes.lock().unwrap().clone();
                        *st.nwrites.lock().unwrap() = *self.reps[i].st.nwrites.lock().unwrap();
                        self.reps[i].writes_seen = old.len();
                        *st.writes.lock().unwrap() = old;
                        self.reps[i].ad = ad;
                        self.reps[i].st = st;
                    }
                    o => {
                        let what = format!("backend-reopen-failed-{}", self.prof.backend.replace('+', "-"));
                        if let Outcome::Panic(pn) = &o {
                            self.panic_viol("C17", &what, pn);
                        } else {
                            self.res.viol("C17", &what, o.describe());
                        }
                        return;
                    }
                }
            }
        }
        match open_with(&self.reps[i].ad, caps) {
            Outcome::Ok(m2) => {
                let o2 = observe(&m2);
                if !behind && (o2.s_value(false) != exp.s_value(false) || o2.anchors != exp.anchors) {
                    self.res.viol("C03", "reopened-replica-differs-from-last-clean-state", exp.diff(&o2));
                }
                self.res.count("c03_reopens", 1);
                self.reps[i].m = m2;
                self.reps[i].caps = caps;
                self.reps[i].behind = false;
                self.reps[i].travelled = None;
                let an_now = self.reps[i].m.get_anchors();
                self.reps[i].heads_log.push((an_now, o2.clone()));
                self.reps[i].clean = o2;
                self.reps[i].last_doc = None;
            }
            Outcome::Err(e) => self.res.viol("C03", "reopen-failed", e),
            Outcome::Panic(p) => self.panic_viol("C03", "reopen", &p),
        }
    }

    fn do_filecopy(&mut self, i: usize) {
        if self.r.chance(10) {
            // an unrelated file lands in the replica's storage (meld is expected to carry it along)
            let k = format!("notes-{}-{}.txt", i, self.step);
            let v: Vec<u8> = (0..self.r.below(200)).map(|_| self.r.below(256) as u8).collect();
            self.t(format!("r{}: foreign item {} ({} bytes) appears in storage", i, k, v.len()));
            self.foreign.insert(k.clone());
            let _ = store::put(&self.reps[i].ad, &k, &v);
            self.res.feat_add("foreign_items", 1);
            return;
        }
        let n = self.reps.len();
        let j = (i + 1 + self.r.below(n - 1)) % n;
        let src = store::dump(&self.reps[j].ad);
        let have: BTreeSet<String> = store::dump(&self.reps[i].ad).keys().cloned().collect();
        let mut missing: Vec<String> = src.keys().filter(|k| !have.contains(*k)).cloned().collect();
        // item names differ from run to run (hash-map order feeds the bytes of packs and blocks): order the
        // candidates by a key derived from what each item says (reference model), which is name independent
        // (not by arrival order either: the order in which a meld writes its items follows their names)
        {
            let canon = refmodel::canonical_item_keys(&src);
            missing.sort_by_key(|k| canon.get(k).cloned().unwrap_or_default());
        }
        self.r.shuffle(&mut missing);
        let take = if self.r.chance(50) { missing.len() } else { self.r.below(missing.len() + 1) };
        self.t(format!("r{}.filecopy(from r{}, {} of {} items)", i, j, take, missing.len()));
        for k in missing.iter().take(take) {
            let _ = store::put(&self.reps[i].ad, k, &src[k]);
        }
        if take > 0 {
            self.reps[i].behind = true;
            self.res.feat_add("filecopies", 1);
            if take < missing.len() {
                self.res.feat_add("partial_deliveries", 1);
            }
        }
    }

    fn do_lowlevel(&mut self, i: usize) {
        let ids = ["x1", "x2", "x3", "a", "b", "x1", "x2", "a", "b", "c", gen::ROOT];
        let id = ids[self.r.below(ids.len())];
        if self.r.chance(15) {
            // read a sub-document by identifier (existing, unknown or deleted objects)
            let m = &self.reps[i].m;
            let res = guard(|| m.read(Some(id)));
            self.res.trace.push(format!("r{}.read(Some({:?})) -> {}", i, id, res.describe()));
            self.res.feat_add("subdocument_reads", 1);
            if let Outcome::Panic(p) = res {
                self.panic_viol("C08", "read-subdocument", &p);
            }
            return;
        }
        let p = self.prof.doc.clone();
        let mut obj = Map::new();
        obj.insert("v".into(), gen::rand_scalar(&mut self.r, &p));
        if self.r.chance(30) {
            obj.insert("w".into(), gen::rand_value(&mut self.r, &p, 2));
        }
        if self.r.chance(12) {
            // calls that must be refused with an error (never a panic) and change nothing
            let before = observe(&self.reps[i].m);
            let m = &self.reps[i].m;
            let known: Vec<String> = before.objects.keys().filter(|u| !before.in_conflict.contains(*u)).cloned().collect();
            let what = self.r.below(7);
            let (name, res): (&str, Outcome<()>) = match what {
                0 => ("get_value(unknown object)", guard(|| m.get_value("no-such-object", None).map(|_| ()))),
                1 => ("get_value(known object, revision of another object)", guard(|| m.get_value(id, Some("1-0000000000000000000000000000000000000000000000000000000000000000")).map(|_| ()))),
                2 => ("get_winner(unknown object)", guard(|| m.get_winner("no-such-object").map(|_| ()))),
                3 => ("get_conflicting(unknown object)", guard(|| m.get_conflicting("no-such-object").map(|_| ()))),
                4 => ("replay_stage(not an object)", guard(|| m.replay_stage(&Some(json!([1, 2, 3]))))),
                5 if !known.is_empty() => {
                    let u = known[self.r.below(known.len())].clone();
                    let w = before.objects[&u].winner.clone();
                    ("resolve_as(object that is not in conflict)", guard(|| m.resolve_as(&u, &w).map(|_| ())))
                }
                _ => ("reload_until(unknown block)", {
                    if before.staged() {
                        Outcome::Err("skipped".into())
                    } else {
                        // refusing is fine here; what the replica shows afterwards is not covered by any property
                        Outcome::Err("skipped".into())
                    }
                }),
            };
            self.res.trace.push(format!("r{}.{} -> {}", i, name, res.describe()));
            self.res.feat_add("refusal_calls", 1);
            match res {
                // no property says these calls must be refused (C08 asks for a value or an error): counted only
                Outcome::Ok(()) => self.res.count("ill_targeted_calls_answered_ok", 1),
                Outcome::Err(_) => {}
                Outcome::Panic(p) => {
                    self.panic_viol("C08", name, &p);
                    self.reps[i].dead = true;
                    return;
                }
            }
            let after = observe(&self.reps[i].m);
            // queries and a resolution in favour of the current winner express no edit (C12, C07); a malformed
            // stage export is not well-formed input, so what it leaves behind is not judged
            if what != 4 && (after.s_value(true) != before.s_value(true) || after.stage != before.stage) {
                self.res.viol("C12", "refused-call-changed-state", format!("{}: {}", name, before.diff(&after)));
            }
            if what == 4 {
                self.reps[i].last_doc = None;
            }
            return;
        }
        let which = self.r.below(6);
        let m = &self.reps[i].m;
        let (name, res) = match which {
            5 => ("create_object+remove_object", guard(|| {
                m.create_object(id, obj.clone())?;
                m.remove_object(id)
            })),
            0 => ("create_object", guard(|| m.create_object(id, obj.clone()))),
            1 | 2 => ("update_object", guard(|| m.update_object(id, obj.clone()))),
            3 => ("delete_object", guard(|| m.delete_object(id))),
            _ => ("remove_object", guard(|| m.remove_object(id))),
        };
        self.res.trace.push(format!("r{}.{}({:?}, {}) -> {}", i, name, id, Value::Object(obj.clone()), res.describe()));
        self.res.feat_add("lowlevel_ops", 1);
        match res {
            Outcome::Ok(_) => {}
            Outcome::Err(e) => {
                // an error is an answer as far as C08 goes: counted only
                if e != "object_has_no_winner" {
                    self.res.count("lowlevel_calls_answered_with_unexpected_error", 1);
                }
            }
            Outcome::Panic(p) => {
                self.panic_viol("C08", name, &p);
                self.reps[i].dead = true;
            }
        }
        self.reps[i].last_doc = None;
    }

    pub fn do_op(&mut self, i: usize, op: usize) {
        match op {
            OP_UPDATE => {
                let d = self.next_doc(i);
                self.do_update(i, d);
                if !self.reps[i].dead && self.r.chance(self.prof.commit_after_update) {
                    let o = observe(&self.reps[i].m);
                    self.reps[i].cur = o;
                    self.res.opkinds.push('b');
                    self.do_commit(i);
                }
            }
            OP_REVERT => {
                let k = self.r.below(self.reps[i].doc_hist.len());
                let d = self.reps[i].doc_hist[k].clone();
                self.do_update(i, d);
            }
            OP_COMMIT => self.do_commit(i),
            OP_MELD_REFRESH => {
                if self.do_meld(i) && !self.reps[i].dead {
                    let o = observe(&self.reps[i].m);
                    self.reps[i].cur = o;
                    self.do_refresh(i, false);
                }
            }
            OP_MELD => {
                self.do_meld(i);
            }
            OP_REFRESH => self.do_refresh(i, false),
            OP_RELOAD => self.do_refresh(i, true),
            OP_TRAVEL => self.do_travel(i),
            OP_RESOLVE => self.do_resolve(i),
            OP_UNSTAGE => self.do_unstage(i, false),
            OP_REPLAY => self.do_unstage(i, true),
            OP_SNAPSHOT => self.do_snapshot(i),
            OP_REOPEN => self.do_reopen(i),
            OP_FILECOPY => self.do_filecopy(i),
            OP_LOWLEVEL => self.do_lowlevel(i),
            _ => {}
        }
    }

    // ------------------------------------------------------------ final exchange (C01 clause 2)
    pub fn final_sync(&mut self) {
        if self.reps.iter().any(|r| r.dead) || self.reps.len() < 2 {
            return;
        }
        let n = self.reps.len();
        for i in 0..n {
            let rep = &mut self.reps[i];
            let ok = guard(|| {
                rep.m.unstage()?;
                rep.m.reload()
            });
            if !ok.is_ok() {
                self.res.viol(if matches!(ok, Outcome::Panic(_)) { "C08" } else { "C15" }, "final-unstage-reload-failed", ok.describe());
                return;
            }
        }
        self.t("FINAL exchange to fixpoint".into());
        let mut rounds = 0;
        loop {
            rounds += 1;
            let mut moved = 0usize;
            for i in 0..n {
                for j in 0..n {
                    if i == j {
                        continue;
                    }
                    let (a, b) = self.two(i, j);
                    let r = guard(|| {
                        let items = a.m.meld(&b.m)?;
                        a.m.refresh()?;
                        Ok(items.len())
                    });
                    match r {
                        Outcome::Ok(k) => moved += k,
                        o => {
                            if let Outcome::Panic(p) = &o {
                                self.panic_viol("C01", "final-exchange", p);
                            } else {
                                self.res.viol("C01", "final-exchange-failed", o.describe());
                            }
                            return;
                        }
                    }
                }
            }
            if moved == 0 {
                break;
            }
            if rounds > 8 {
                self.res.viol("C01", "exchange-does-not-reach-fixpoint", format!("{} rounds", rounds));
                return;
            }
        }
        self.res.feat_max("exchange_rounds", rounds as u64);
        let o0 = observe(&self.reps[0].m);
        let k0: BTreeSet<String> = store::dump(&self.reps[0].ad).keys().cloned().collect();
        for i in 1..n {
            let ki: BTreeSet<String> = store::dump(&self.reps[i].ad).keys().cloned().collect();
            if ki != k0 {
                // C01 promises a common *state* at the fixpoint of the exchange, not equal key sets: counted, and
                // the state comparison below is what decides
                self.res.count("c01_storage_key_sets_differ_after_exchange", 1);
                self.t(format!("storage key sets differ after exchange: r0 has {} items, r{} has {}; only r0: {:?}; only r{}: {:?}", k0.len(), i, ki.len(), k0.difference(&ki).take(3).collect::<Vec<_>>(), i, ki.difference(&k0).take(3).collect::<Vec<_>>()));
            }
            let oi = observe(&self.reps[i].m);
            if oi.s_value(false) != o0.s_value(false) {
                self.res.viol("C01", "replicas-diverge-after-exchange", o0.diff(&oi));
            }
            if oi.anchors != o0.anchors {
                self.res.viol("C01", "heads-diverge-after-exchange", format!("{:?} vs {:?}", o0.anchors, oi.anchors));
            }
        }
        self.res.count("c01_final_exchanges", 1);
        for i in 0..n {
            let o = observe(&self.reps[i].m);
            self.reps[i].behind = false;
            self.reps[i].travelled = None;
            self.audit(i, &o);
            self.reps[i].cur = o;
        }
    }

    pub fn files_of(&self, i: usize) -> Files {
        store::dump(&self.reps[i].ad)
    }
}

/// Applied blocks drop their change list; compare block JSON without the "c" field
fn strip_changes(j: &str) -> String {
    match serde_json::from_str::<Value>(j) {
        Ok(mut v) => {
            if let Some(o) = v.as_object_mut() {
                o.remove("c");
            }
            v.to_string()
        }
        Err(_) => j.to_string(),
    }
}

pub fn engine_nontrivial(res: &CaseResult, rule: &str) -> bool {
    let f = |k: &str| res.feat(k);
    match rule {
        "any" => f("commits") >= 2,
        "C03" => f("commit_with_chain") >= 1 || f("first_commit_with_update_record") >= 1,
        "C04" => f("updates_on_history") >= 2 && f("melds") >= 1,
        "C05" => f("max_leaves") >= 2 || f("index_ge_10") >= 1,
        "C08" => f("commit_with_array_conflict") >= 1,
        "C11" => f("melds") >= 1 && f("commits") >= 2,
        "C12" => f("commit_with_array_conflict") + f("maintenance_with_array_conflict") >= 1,
        "C13" => f("multi_parent_commits") >= 1,
        "C14" => f("travels") >= 1 && (f("multi_head_travels") >= 1 || f("commits") >= 5),
        "C15" => f("big_stage_roundtrips") >= 1,
        "C07" => f("resolutions") >= 1,
        "C01" => f("max_leaves") >= 2 && f("commits") >= 2,
        "C02" => f("obs_with_heldback") >= 1,
        _ => true,
    }
}

pub fn run_case(seed: u64, case: u64, prof: &Profile) -> World {
    let mut w = World::new(seed, case, prof.clone());
    let _ = guard_plain(|| ());
    w.run();
    w
}

impl World {
    /// Adds a replica opened on a private copy of `files`, optionally replaying a stage export.
    pub fn add_fork(&mut self, files: &Files, stage: &Option<Value>, caps: (u32, u32)) -> Option<usize> {
        let (ad, st) = store::mon_mem();
        for (k, v) in files {
            let _ = store::put(&ad, k, v);
        }
        let m = match open_with(&ad, caps) {
            Outcome::Ok(m) => m,
            o => {
                self.res.viol(if matches!(o, Outcome::Panic(_)) { "C08" } else { "C03" }, "fork-open-failed", o.describe());
                return None;
            }
        };
        if stage.is_some() {
            let r = guard(|| m.replay_stage(stage));
            if !r.is_ok() {
                self.res.viol("C15", "fork-replay-failed", r.describe());
                return None;
            }
        }
        let cur = observe(&m);
        self.reps.push(Rep {
            ad,
            st,
            m,
            behind: false,
            travelled: None,
            last_doc: None,
            doc_hist: vec![],
            clean: cur.clone(),
            cur,
            heads_log: vec![],
            prev_files: BTreeMap::new(),
            writes_seen: 0,
            dead: false,
            caps,
            path: None,
            commit_infos: BTreeMap::new(),
            redo: None,
        });
        Some(self.reps.len() - 1)
    }
}

impl Drop for World {
    fn drop(&mut self) {
        for r in &self.reps {
            if let Some(p) = &r.path {
                crate::backends::cleanup(p);
            }
        }
    }
}
