//! Independent reference model over raw storage dumps.  Shares nothing with the
//! library but serde_json and sha2.  See DESIGN.md Appendix A.
use crate::gen::sha;
use serde_json::Value;
use std::collections::{BTreeMap, BTreeSet};

pub type Files = BTreeMap<String, Vec<u8>>;

#[derive(Debug, Clone)]
pub struct RefBlock {
    pub stem: String,
    pub idx: u32,
    pub parents: Vec<String>,
    pub packs: Vec<String>,
    /// (uuid, revision, parent revision)
    pub changes: Vec<(String, String, Option<String>)>,
    pub info: Option<Value>,
    /// every object digest the block refers to
    pub digests: Vec<String>,
}

/// (index, digest, tail)
pub fn rev_parts(s: &str) -> Option<(u32, String, Option<String>)> {
    let dash = s.find('-')?;
    if dash == 0 || !s[..dash].bytes().all(|c| c.is_ascii_digit()) {
        return None;
    }
    let idx: u32 = s[..dash].parse().ok()?;
    let rest = &s[dash + 1..];
    match rest.rfind('_') {
        Some(u) if u > 0 && u + 1 < rest.len() => Some((idx, rest[..u].to_string(), Some(rest[u + 1..].to_string()))),
        _ => Some((idx, rest.to_string(), None)),
    }
}

pub fn child_rev(prev: &str, digest: &str) -> Option<String> {
    let (i, _, _) = rev_parts(prev)?;
    Some(format!("{}-{}_{}", i.checked_add(1)?, digest, &sha(prev.as_bytes())[..7]))
}

pub fn stem_idx(stem: &str) -> Option<(u32, String)> {
    let d = stem.find('-')?;
    if d == 0 || !stem[..d].bytes().all(|c| c.is_ascii_digit()) {
        return None;
    }
    let i: u32 = stem[..d].parse().ok()?;
    let h = &stem[d + 1..];
    if h.is_empty() || !h.bytes().all(|c| c.is_ascii_alphanumeric() || c == b'_') {
        return None;
    }
    Some((i, h.to_string()))
}

pub fn parse_block(stem: &str, bytes: &[u8]) -> Option<RefBlock> {
    let (idx, h) = stem_idx(stem)?;
    if sha(bytes) != h {
        return None;
    }
    let v: Value = serde_json::from_slice(bytes).ok()?;
    let o = v.as_object()?;
    let mut parents = vec![];
    if let Some(p) = o.get("p") {
        for x in p.as_array()? {
            parents.push(x.as_str()?.to_string());
        }
    }
    let want = parents
        .iter()
        .map(|p| stem_idx(p).map(|x| x.0))
        .collect::<Option<Vec<u32>>>()?
        .into_iter()
        .max()
        .unwrap_or(0)
        .checked_add(1)?;
    if want != idx {
        return None;
    }
    let mut packs = vec![];
    if let Some(k) = o.get("k") {
        for x in k.as_array()? {
            packs.push(x.as_str()?.to_string());
        }
    }
    let mut changes = vec![];
    let mut digests = vec![];
    if let Some(c) = o.get("c") {
        if let Some(arr) = c.as_array() {
            for rec in arr {
                let r = match rec.as_array() {
                    Some(r) => r,
                    None => continue,
                };
                match r.len() {
                    2 => {
                        let d = r[1].as_str()?;
                        changes.push((r[0].as_str()?.to_string(), format!("1-{}", d), None));
                        digests.push(d.to_string());
                    }
                    3 => {
                        let prev = r[1].as_str()?;
                        let d = r[2].as_str()?;
                        changes.push((r[0].as_str()?.to_string(), child_rev(prev, d)?, Some(prev.to_string())));
                        digests.push(d.to_string());
                        digests.push(rev_parts(prev)?.1);
                    }
                    _ => return None,
                }
            }
        }
    }
    let info = match o.get("i") {
        Some(i) if i.is_object() => Some(i.clone()),
        Some(_) => return None,
        None => None,
    };
    Some(RefBlock { stem: stem.to_string(), idx, parents, packs, changes, info, digests })
}

/// Digests of the objects of a pack, found with a real JSON parser (exact byte slices).
pub fn parse_pack(stem: &str, bytes: &[u8]) -> Option<Vec<String>> {
    if sha(bytes) != stem {
        return None;
    }
    pack_objects(bytes).map(|v| v.into_iter().map(|(s, e)| sha(&bytes[s..e])).collect())
}

/// Byte ranges of the top-level elements of a JSON array
pub fn pack_objects(bytes: &[u8]) -> Option<Vec<(usize, usize)>> {
    let mut out = vec![];
    let mut pos = 0usize;
    let n = bytes.len();
    let ws = |p: &mut usize| {
        while *p < n && (bytes[*p] as char).is_ascii_whitespace() {
            *p += 1;
        }
    };
    ws(&mut pos);
    if pos >= n || bytes[pos] != b'[' {
        return None;
    }
    pos += 1;
    ws(&mut pos);
    if pos < n && bytes[pos] == b']' {
        return Some(out);
    }
    loop {
        let mut it = serde_json::Deserializer::from_slice(&bytes[pos..]).into_iter::<Value>();
        match it.next() {
            Some(Ok(_)) => {}
            _ => return None,
        }
        let off = it.byte_offset();
        out.push((pos, pos + off));
        pos += off;
        ws(&mut pos);
        if pos >= n {
            return None;
        }
        if bytes[pos] == b',' {
            pos += 1;
            ws(&mut pos);
            continue;
        }
        if bytes[pos] == b']' {
            return Some(out);
        }
        return None;
    }
}

pub fn special(d: &str) -> bool {
    d == "d" || d == "r" || d == "e" || (d.len() <= 8 && u32::from_str_radix(d, 16).is_ok())
}

pub struct RefState {
    pub blocks: BTreeMap<String, RefBlock>,
    pub valid_packs: BTreeSet<String>,
    pub complete: BTreeSet<String>,
    /// uuid -> (revision -> parent)
    pub trees: BTreeMap<String, BTreeMap<String, Option<String>>>,
    pub heads: BTreeSet<String>,
    /// digests of all objects found in valid packs
    pub avail: BTreeSet<String>,
}

pub fn build(files: &Files) -> RefState {
    let mut blocks = BTreeMap::new();
    let mut avail = BTreeSet::new();
    let mut valid_packs = BTreeSet::new();
    for (k, v) in files {
        if let Some(stem) = k.strip_suffix(".delta") {
            if let Some(b) = parse_block(stem, v) {
                blocks.insert(stem.to_string(), b);
            }
        } else if let Some(stem) = k.strip_suffix(".pack") {
            if let Some(ds) = parse_pack(stem, v) {
                valid_packs.insert(stem.to_string());
                for d in ds {
                    avail.insert(d);
                }
            }
        }
    }
    let mut complete: BTreeSet<String> = BTreeSet::new();
    loop {
        let mut changed = false;
        for (s, b) in &blocks {
            if complete.contains(s) {
                continue;
            }
            if b.parents.iter().all(|p| complete.contains(p))
                && b.packs.iter().all(|p| valid_packs.contains(p))
                && b.digests.iter().all(|d| special(d) || avail.contains(d))
            {
                complete.insert(s.clone());
                changed = true;
            }
        }
        if !changed {
            break;
        }
    }
    let mut trees: BTreeMap<String, BTreeMap<String, Option<String>>> = BTreeMap::new();
    for s in &complete {
        for (u, r, p) in &blocks[s].changes {
            trees.entry(u.clone()).or_default().entry(r.clone()).or_insert(p.clone());
        }
    }
    let mut heads: BTreeSet<String> = complete.clone();
    for s in &complete {
        for p in &blocks[s].parents {
            heads.remove(p);
        }
    }
    RefState { blocks, valid_packs, complete, trees, heads, avail }
}

/// Trees of the blocks that are ancestors-or-self of `heads` (time travel reference)
pub fn trees_until(rs: &RefState, heads: &BTreeSet<String>) -> (BTreeSet<String>, BTreeMap<String, BTreeMap<String, Option<String>>>) {
    let mut seen = BTreeSet::new();
    let mut todo: Vec<String> = heads.iter().cloned().collect();
    while let Some(s) = todo.pop() {
        if !seen.insert(s.clone()) {
            continue;
        }
        if let Some(b) = rs.blocks.get(&s) {
            for p in &b.parents {
                todo.push(p.clone());
            }
        }
    }
    let mut trees: BTreeMap<String, BTreeMap<String, Option<String>>> = BTreeMap::new();
    for s in &seen {
        if let Some(b) = rs.blocks.get(s) {
            for (u, r, p) in &b.changes {
                trees.entry(u.clone()).or_default().entry(r.clone()).or_insert(p.clone());
            }
        }
    }
    (seen, trees)
}

pub fn rev_cmp(a: &str, b: &str) -> std::cmp::Ordering {
    let ia = rev_parts(a).map(|x| x.0).unwrap_or(0);
    let ib = rev_parts(b).map(|x| x.0).unwrap_or(0);
    ia.cmp(&ib).then_with(|| a.as_bytes().cmp(b.as_bytes()))
}

/// live leaves and winner from a set of (revision -> parent)
pub fn leaves_winner(tree: &BTreeMap<String, Option<String>>) -> (BTreeSet<String>, Option<String>) {
    let parents: BTreeSet<&String> = tree.values().filter_map(|p| p.as_ref()).collect();
    let mut leaves = BTreeSet::new();
    for r in tree.keys() {
        let (_, d, _) = match rev_parts(r) {
            Some(x) => x,
            None => continue,
        };
        if d == "r" || parents.contains(r) {
            continue;
        }
        let mut cur = r.clone();
        let mut ok = false;
        let mut guard = 0;
        loop {
            guard += 1;
            if guard > 100000 {
                break;
            }
            match tree.get(&cur) {
                None => break,
                Some(None) => {
                    ok = rev_parts(&cur).map(|x| x.0 == 1).unwrap_or(false);
                    break;
                }
                Some(Some(p)) => cur = p.clone(),
            }
        }
        if ok {
            leaves.insert(r.clone());
        }
    }
    let w = leaves.iter().max_by(|a, b| rev_cmp(a, b)).cloned();
    (leaves, w)
}

/// A name-independent key for a stored item: item names differ from run to run (hash-map order feeds
/// the bytes of packs and blocks) but what an item *says* does not.  Blocks: index, metadata, sorted
/// change records and the keys of their parents; packs: the sorted digests of their objects.
pub fn canonical_item_keys(files: &Files) -> BTreeMap<String, String> {
    let mut out: BTreeMap<String, String> = BTreeMap::new();
    let mut blocks: BTreeMap<String, RefBlock> = BTreeMap::new();
    for (k, v) in files {
        if let Some(stem) = k.strip_suffix(".pack") {
            let mut ds = parse_pack(stem, v).unwrap_or_default();
            ds.sort();
            out.insert(k.clone(), format!("P{}", sha(ds.join(",").as_bytes())));
        } else if let Some(stem) = k.strip_suffix(".delta") {
            if let Some(b) = parse_block(stem, v) {
                blocks.insert(stem.to_string(), b);
            } else {
                out.insert(k.clone(), format!("X{}", sha(v)));
            }
        } else {
            out.insert(k.clone(), format!("O{}", sha(v)));
        }
    }
    // blocks in index order so that parents are keyed first
    let mut order: Vec<&String> = blocks.keys().collect();
    order.sort_by_key(|s| blocks[*s].idx);
    let mut bkeys: BTreeMap<String, String> = BTreeMap::new();
    for stem in order {
        let b = &blocks[stem];
        let mut ch: Vec<String> = b.changes.iter().map(|(u, r, p)| format!("{}|{}|{:?}", u, r, p)).collect();
        ch.sort();
        let mut ps: Vec<String> = b.parents.iter().map(|p| bkeys.get(p).cloned().unwrap_or_else(|| "?".into())).collect();
        ps.sort();
        let key = format!("B{:08}{}", b.idx, sha(format!("{:?}|{:?}|{:?}", ch, b.info.as_ref().map(|i| i.to_string()), ps).as_bytes()));
        bkeys.insert(stem.clone(), key.clone());
        out.insert(format!("{}.delta", stem), key);
    }
    out
}
