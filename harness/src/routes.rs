//! C01 (delivery routes converge) and C02 (causal completeness under every delivery prefix).
use crate::engine::{self, open_with, CaseResult, Profile, World};
use crate::obs::{guard, observe, Obs, Outcome};
use crate::refmodel::{self, Files};
use crate::rng::Rng;
use crate::store::{self, Ad};
use melda::melda::{DeltaId, Melda};
use serde_json::json;
use std::collections::BTreeSet;

fn block_before_parent(order: &[String], files: &Files) -> bool {
    let pos = |k: &str| order.iter().position(|x| x == k);
    for (i, k) in order.iter().enumerate() {
        if let Some(st) = k.strip_suffix(".delta") {
            if let Some(b) = refmodel::parse_block(st, &files[k]) {
                for p in &b.parents {
                    if let Some(j) = pos(&format!("{}.delta", p)) {
                        if j > i {
                            return true;
                        }
                    }
                }
                for p in &b.packs {
                    if let Some(j) = pos(&format!("{}.pack", p)) {
                        if j > i {
                            return true;
                        }
                    }
                }
            }
        }
    }
    false
}

fn check_vs_ref(res: &mut CaseResult, prop: &'static str, tag: &str, o: &Obs, files: &Files) {
    let rs = refmodel::build(files);
    let lo: BTreeSet<String> = o.objects.keys().cloned().collect();
    let ro: BTreeSet<String> = rs.trees.keys().cloned().collect();
    if lo != ro {
        res.viol(prop, &format!("{}-objects-vs-reference", tag), format!("{:?} vs {:?}", lo, ro));
        return;
    }
    for (u, t) in &rs.trees {
        let (leaves, w) = refmodel::leaves_winner(t);
        let ob = &o.objects[u];
        if w.as_deref() != Some(ob.winner.as_str()) {
            res.viol(prop, &format!("{}-winner-vs-reference", tag), format!("{}: {} vs {:?}", u, ob.winner, w));
        }
        let mut exp = leaves.clone();
        if let Some(w) = &w {
            exp.remove(w);
        }
        let got: BTreeSet<String> = ob.conflicting.iter().cloned().collect();
        if got != exp {
            res.viol(prop, &format!("{}-conflicts-vs-reference", tag), format!("{}: {:?} vs {:?}", u, got, exp));
        }
    }
    if o.anchors != rs.heads {
        res.viol(prop, &format!("{}-heads-vs-reference", tag), format!("{:?} vs {:?}", o.anchors, rs.heads));
    }
}

fn same_state(res: &mut CaseResult, prop: &'static str, name: &str, a: &Obs, b: &Obs) {
    if a.s_value(false) != b.s_value(false) {
        res.viol(prop, name, a.diff(b));
    } else if a.anchors != b.anchors {
        res.viol(prop, &format!("{}-heads", name), format!("{:?} vs {:?}", a.anchors, b.anchors));
    }
}

fn fresh(perm: Option<u64>) -> (Ad, std::sync::Arc<store::MonState>) {
    let (ad, st) = store::mon_mem();
    *st.perm_seed.lock().unwrap() = perm;
    (ad, st)
}

// ------------------------------------------------------------------------------------ C01
pub fn c01_case(seed: u64, case: u64, prof: &Profile) -> CaseResult {
    let mut w: World = engine::run_case(seed, case, prof);
    let mut res = std::mem::take(&mut w.res);
    if res.aborted.is_some() || w.reps.iter().any(|r| r.dead) || w.reps.len() < 2 || res.counters.get("c01_final_exchanges").is_none() {
        if res.aborted.is_none() {
            res.aborted = Some("history did not reach the final exchange".into());
        }
        return res;
    }
    let mut r = Rng::derive(seed, case, 0xC01);
    let files = w.files_of(0);
    let o0 = observe(&w.reps[0].m);
    check_vs_ref(&mut res, "C01", "live-replica", &o0, &files);
    let caps = (*r.pick(&prof.caps), *r.pick(&prof.caps));
    let mut routes = 0u64;
    let mut child_first = false;
    // (b) meld into an empty replica, then refresh
    {
        let (ad, _) = fresh(None);
        match open_with(&ad, caps) {
            Outcome::Ok(mut m) => {
                let rr = guard(|| {
                    m.meld(&w.reps[0].m)?;
                    m.refresh()
                });
                if rr.is_ok() {
                    same_state(&mut res, "C01", "route-meld-differs", &o0, &observe(&m));
                    let k: BTreeSet<String> = store::dump(&ad).keys().cloned().collect();
                    let k0: BTreeSet<String> = files.keys().cloned().collect();
                    if k != k0 {
                        // equal state is what C01 promises (decided just above); equal key sets are only counted
                        res.count("c01_meld_left_items_behind", 1);
                    }
                } else {
                    res.viol("C01", "route-meld-failed", rr.describe());
                }
                routes += 1;
            }
            o => res.viol("C01", "route-open-failed", o.describe()),
        }
    }
    // (c) file copy, one refresh per file; (d) batches; (f) the same under permuted listings
    for variant in 0..4 {
        let perm = if variant >= 2 { Some(r.next() | 1) } else { None };
        let (ad, _) = fresh(perm);
        let mut m = match open_with(&ad, caps) {
            Outcome::Ok(m) => m,
            o => {
                res.viol("C01", "route-open-failed", o.describe());
                continue;
            }
        };
        let mut keys: Vec<String> = files.keys().cloned().collect();
        r.shuffle(&mut keys);
        if block_before_parent(&keys, &files) {
            child_first = true;
        }
        let mut i = 0;
        let mut failed = false;
        while i < keys.len() {
            let batch = if variant % 2 == 0 { 1 } else { 1 + r.below(4) };
            for k in keys.iter().skip(i).take(batch) {
                let _ = store::put(&ad, k, &files[k]);
            }
            i += batch;
            let rr = guard(|| m.refresh());
            if !rr.is_ok() {
                res.viol("C01", "route-refresh-failed", rr.describe());
                failed = true;
                break;
            }
        }
        if !failed {
            same_state(&mut res, "C01", if variant % 2 == 0 { "route-filecopy-differs" } else { "route-batches-differs" }, &o0, &observe(&m));
        }
        routes += 1;
    }
    // (e) copy everything, then open a new replica (plain and permuted listing)
    for variant in 0..2 {
        let perm = if variant == 1 { Some(r.next() | 1) } else { None };
        let (ad, _) = fresh(perm);
        let mut keys: Vec<String> = files.keys().cloned().collect();
        r.shuffle(&mut keys);
        for k in &keys {
            let _ = store::put(&ad, k, &files[k]);
        }
        match open_with(&ad, caps) {
            Outcome::Ok(m) => same_state(&mut res, "C01", "route-full-reload-differs", &o0, &observe(&m)),
            o => res.viol("C01", "route-open-failed", o.describe()),
        }
        routes += 1;
    }
    // partition the items between two empty replicas, exchange in both directions to fixpoint
    {
        let (a1, _) = fresh(None);
        let (a2, _) = fresh(Some(r.next() | 1));
        for (k, v) in &files {
            match r.below(3) {
                0 => {
                    let _ = store::put(&a1, k, v);
                }
                1 => {
                    let _ = store::put(&a2, k, v);
                }
                _ => {
                    let _ = store::put(&a1, k, v);
                    let _ = store::put(&a2, k, v);
                }
            }
        }
        if let (Outcome::Ok(mut m1), Outcome::Ok(mut m2)) = (open_with(&a1, caps), open_with(&a2, caps)) {
            let mut rounds = 0;
            loop {
                rounds += 1;
                let moved = guard(|| {
                    let x = m1.meld(&m2)?.len();
                    m1.refresh()?;
                    let y = m2.meld(&m1)?.len();
                    m2.refresh()?;
                    Ok(x + y)
                });
                match moved {
                    Outcome::Ok(0) => break,
                    Outcome::Ok(_) if rounds < 10 => {}
                    Outcome::Ok(_) => {
                        res.viol("C01", "partition-exchange-no-fixpoint", String::new());
                        break;
                    }
                    o => {
                        res.viol("C01", "partition-exchange-failed", o.describe());
                        break;
                    }
                }
            }
            let (o1, o2) = (observe(&m1), observe(&m2));
            same_state(&mut res, "C01", "partition-sides-differ", &o1, &o2);
            // both sides can only know what is causally complete in their union; meld copies
            // loaded blocks and indexed packs, so the union reaches both sides
            let f1 = store::dump(&a1);
            check_vs_ref(&mut res, "C01", "partition-side", &o1, &f1);
            res.feat_max("partition_rounds", rounds);
            routes += 1;
        }
    }
    res.count("c01_routes", routes);
    res.feat_max("child_before_parent", child_first as u64);
    res.feat_max("items", files.len() as u64);
    res
}
pub fn c01_nontrivial(res: &CaseResult) -> bool {
    res.feat("max_leaves") >= 2 && res.feat("commits") >= 2 && res.feat("child_before_parent") >= 1
}

// ------------------------------------------------------------------------------------ C02
fn adversarial_orders(files: &Files, r: &mut Rng, n: usize) -> Vec<(String, Vec<String>)> {
    let keys: Vec<String> = files.keys().cloned().collect();
    let idx = |k: &String| k.strip_suffix(".delta").and_then(refmodel::stem_idx).map(|x| x.0).unwrap_or(0);
    let mut out = vec![];
    let mut blocks: Vec<String> = keys.iter().filter(|k| k.ends_with(".delta")).cloned().collect();
    let packs: Vec<String> = keys.iter().filter(|k| k.ends_with(".pack")).cloned().collect();
    blocks.sort_by_key(|k| std::cmp::Reverse(idx(k)));
    let mut o1 = blocks.clone();
    o1.extend(packs.iter().cloned());
    out.push(("blocks-newest-first-then-packs".to_string(), o1));
    let mut o2 = packs.clone();
    let mut b2 = blocks.clone();
    b2.reverse();
    r.shuffle(&mut o2);
    o2.extend(b2);
    out.push(("packs-then-blocks-oldest-first".to_string(), o2));
    let mut o3 = vec![];
    let mut p3 = packs.clone();
    r.shuffle(&mut p3);
    // interleave: each block newest first, its packs last
    for b in &blocks {
        o3.push(b.clone());
    }
    for p in p3.iter().rev() {
        o3.push(p.clone());
    }
    let rot = o3.len() / 3;
    o3.rotate_left(rot);
    out.push(("rotated-newest-first".to_string(), o3));
    while out.len() < n {
        let mut k = keys.clone();
        r.shuffle(&mut k);
        out.push(("random".to_string(), k));
    }
    out.truncate(n.max(3));
    out
}

pub fn c02_case(seed: u64, case: u64, prof: &Profile, nperm: usize) -> CaseResult {
    let mut w: World = engine::run_case(seed, case, prof);
    let mut res = std::mem::take(&mut w.res);
    if res.aborted.is_some() || w.reps.iter().any(|r| r.dead) || res.counters.get("c01_final_exchanges").is_none() {
        if res.aborted.is_none() {
            res.aborted = Some("history did not reach the final exchange".into());
        }
        return res;
    }
    let mut r = Rng::derive(seed, case, 0xC02);
    let files = w.files_of(0);
    let src = observe(&w.reps[0].m);
    let caps = (*r.pick(&prof.caps), *r.pick(&prof.caps));
    let mut heldback_then_applied = 0u64;
    for (oname, order) in adversarial_orders(&files, &mut r, nperm) {
        let (ad, st) = store::mon_mem();
        if r.chance(50) {
            *st.perm_seed.lock().unwrap() = Some(r.next() | 1);
        }
        let mut m = match open_with(&ad, caps) {
            Outcome::Ok(m) => m,
            o => {
                res.viol("C02", "open-empty-failed", o.describe());
                continue;
            }
        };
        let mut ever_held: BTreeSet<String> = BTreeSet::new();
        let mut cur = Files::new();
        for (n, k) in order.iter().enumerate() {
            let _ = store::put(&ad, k, &files[k]);
            cur.insert(k.clone(), files[k].clone());
            let rr = guard(|| m.refresh());
            match rr {
                Outcome::Ok(()) => {}
                o => {
                    res.viol("C02", "refresh-failed-on-intact-prefix", format!("{} after {} ({}): {}", oname, k, n, o.describe()));
                    break;
                }
            }
            let o = observe(&m);
            let rs = refmodel::build(&cur);
            // (1) per block: applied iff in the causally complete closure
            for (stem, _) in &rs.blocks {
                let ap = DeltaId::from(stem).ok().and_then(|id| m.get_delta(&id).ok().flatten()).map(|d| d.verif_status() == "applied").unwrap_or(false);
                let want = rs.complete.contains(stem);
                if ap != want {
                    res.viol("C02", if ap { "incomplete-block-applied" } else { "complete-block-held-back" }, format!("{} prefix {} (+{}): block {} applied={} complete={}", oname, n + 1, k, stem, ap, want));
                }
                if !want {
                    ever_held.insert(stem.clone());
                } else if ever_held.remove(stem) {
                    heldback_then_applied += 1;
                }
            }
            // (2) objects / winners / conflicts / heads == reference(closure)
            check_vs_ref(&mut res, "C02", "prefix", &o, &cur);
            // (3) incremental == full reload of the same storage
            match open_with(&ad, caps) {
                Outcome::Ok(m2) => {
                    let o2 = observe(&m2);
                    if o2.s_value(false) != o.s_value(false) || o2.anchors != o.anchors {
                        res.viol("C02", "incremental-refresh-differs-from-reload", format!("{} prefix {}: {}", oname, n + 1, o.diff(&o2)));
                    }
                }
                oo => res.viol("C02", "reload-of-prefix-failed", oo.describe()),
            }
            res.count("c02_prefixes", 1);
            if !res.violations.is_empty() {
                break;
            }
        }
        // (4) after the last file: same as the source replica
        if res.violations.is_empty() {
            let fin = observe(&m);
            same_state(&mut res, "C02", "final-state-differs-from-source", &src, &fin);
        }
        res.count("c02_orders", 1);
    }
    res.feat_max("heldback_then_applied", heldback_then_applied);
    res.feat_max("items", files.len() as u64);
    res.sample = Some(json!({"items": files.len(), "heldback_then_applied": heldback_then_applied}));
    res
}
pub fn c02_nontrivial(res: &CaseResult) -> bool {
    res.feat("heldback_then_applied") >= 1
}

#[allow(dead_code)]
pub fn new_until(ad: &Ad, h: &BTreeSet<DeltaId>) -> Outcome<Melda> {
    let ad = ad.clone();
    guard(move || Melda::new_until(ad, h))
}

// ------------------------------------------------------------------------------------ C19 (system level)
/// Two replicas in the same state make the same edit independently: same revisions, and
/// after exchanging their (different) blocks nothing is in conflict and no leaf is added.
pub fn c19_twins_case(seed: u64, case: u64) -> CaseResult {
    use crate::gen;
    let mut res = CaseResult::default();
    let mut r = Rng::derive(seed, case, 0xC19);
    let dp = gen::DocProfile::default();
    let caps = (*r.pick(&[1u32, 2, 16]), *r.pick(&[1u32, 2, 16]));
    let (a_ad, _) = store::mon_mem();
    let (b_ad, _) = store::mon_mem();
    let (mut a, mut b) = match (open_with(&a_ad, caps), open_with(&b_ad, caps)) {
        (Outcome::Ok(a), Outcome::Ok(b)) => (a, b),
        _ => {
            res.aborted = Some("open failed".into());
            return res;
        }
    };
    let mut doc = gen::rand_doc(&mut r, &dp);
    let rounds = 2 + r.below(4);
    let mut total_edits = 0u64;
    let out = guard(|| {
        a.update(doc.as_object().unwrap().clone())?;
        a.commit(None)?;
        b.meld(&a)?;
        b.refresh()?;
        for round in 0..rounds {
            let nedits = 1 + r.below(3);
            for _ in 0..nedits {
                doc = gen::mutate_doc(&mut r, &dp, &doc);
                res.trace.push(format!("both.update({})", doc));
                a.update(doc.as_object().unwrap().clone())?;
                b.update(doc.as_object().unwrap().clone())?;
                total_edits += 1;
                if r.chance(20) {
                    let obj = json!({"v": r.below(5)}).as_object().unwrap().clone();
                    a.update_object("x1", obj.clone())?;
                    b.update_object("x1", obj)?;
                }
            }
            let (oa, ob) = (observe(&a), observe(&b));
            if oa.s_value(true) != ob.s_value(true) {
                res.viol("C19", "same-edit-different-revisions", format!("round {}: {}", round, oa.diff(&ob)));
            }
            a.commit(Some(json!({"who": "a", "round": round}).as_object().unwrap().clone()))?;
            b.commit(Some(json!({"who": "b", "round": round}).as_object().unwrap().clone()))?;
            let (oa, ob) = (observe(&a), observe(&b));
            a.meld(&b)?;
            a.refresh()?;
            b.meld(&a)?;
            b.refresh()?;
            let (pa, pb) = (observe(&a), observe(&b));
            if !pa.in_conflict.is_empty() || !pb.in_conflict.is_empty() {
                res.viol("C19", "same-edit-yields-conflict-after-exchange", format!("round {}: {:?} / {:?}", round, pa.in_conflict, pb.in_conflict));
            }
            if pa.s_value(false) != oa.s_value(false) || pb.s_value(false) != ob.s_value(false) {
                res.viol("C19", "exchange-of-identical-edits-changes-revision-sets", format!("round {}: {}", round, oa.diff(&pa)));
            }
            if pa.s_value(false) != pb.s_value(false) {
                res.viol("C01", "twins-diverge", pa.diff(&pb));
            }
            if pa.anchors.len() == 2 {
                res.feat_add("two_heads_after_exchange", 1);
            }
            res.count("c19_twin_rounds", 1);
        }
        Ok(())
    });
    match out {
        Outcome::Ok(()) => {}
        Outcome::Err(e) => res.viol("C08", "error-in-twin-history", e),
        Outcome::Panic(p) => {
            res.viol("C08", "panic-in-twin-history", p.clone());
            res.viol("C19", "twin-history-panicked", p);
        }
    }
    res.features.insert("rounds".into(), rounds as u64);
    res.features.insert("edits".into(), total_edits);
    res.opkinds = format!("{}:{}", rounds, total_edits);
    res
}
pub fn c19_twins_nontrivial(res: &CaseResult) -> bool {
    res.feat("two_heads_after_exchange") >= 1 && res.feat("edits") >= 3
}

// ------------------------------------------------------------------------------------ C14 (full-mesh histories)
/// 3-4 replicas commit concurrently and synchronise all-to-all before the next round, so that
/// blocks have 3-4 parents; then every head set replica 0 ever had is revisited.
pub fn c14_mesh_case(seed: u64, case: u64) -> CaseResult {
    use crate::gen;
    let mut res = CaseResult::default();
    let mut r = Rng::derive(seed, case, 0xC14);
    let dp = gen::DocProfile { id_pool: 6, kind_change: false, ..gen::DocProfile::default() };
    let n = 3 + r.below(2);
    let rounds = 3 + r.below(3);
    let caps = (*r.pick(&[1u32, 2, 16]), *r.pick(&[1u32, 2, 16]));
    let mut reps: Vec<(Ad, Melda)> = vec![];
    for _ in 0..n {
        let (ad, _) = store::mon_mem();
        match open_with(&ad, caps) {
            Outcome::Ok(m) => reps.push((ad, m)),
            o => {
                res.aborted = Some(o.describe());
                return res;
            }
        }
    }
    let mut recorded: Vec<(BTreeSet<DeltaId>, Obs)> = vec![];
    let mut max_parents = 0usize;
    let hist = guard(|| {
        for round in 0..rounds {
            for i in 0..n {
                let base = reps[i].1.read(None).ok().map(serde_json::Value::Object);
                let d = match base {
                    Some(b) => gen::mutate_doc(&mut r, &dp, &b),
                    None => gen::rand_doc(&mut r, &dp),
                };
                reps[i].1.update(d.as_object().unwrap().clone())?;
                if let Some(an) = reps[i].1.commit(Some(json!({"round": round, "replica": i}).as_object().unwrap().clone()))? {
                    for a in &an {
                        if let Ok(Some(dl)) = reps[i].1.get_delta(a) {
                            max_parents = max_parents.max(dl.parents.map(|p| p.len()).unwrap_or(0));
                        }
                    }
                    if i == 0 {
                        recorded.push((an, observe(&reps[0].1)));
                    }
                }
            }
            for i in 0..n {
                for j in 0..n {
                    if i != j {
                        let (a, b) = if i < j {
                            let (x, y) = reps.split_at_mut(j);
                            (&mut x[i], &mut y[0])
                        } else {
                            let (x, y) = reps.split_at_mut(i);
                            (&mut y[0], &mut x[j])
                        };
                        a.1.meld(&b.1)?;
                    }
                }
                reps[i].1.refresh()?;
                if i == 0 {
                    recorded.push((reps[0].1.get_anchors(), observe(&reps[0].1)));
                }
            }
        }
        Ok(())
    });
    match hist {
        Outcome::Ok(()) => {}
        Outcome::Err(e) => {
            res.viol("C08", "error-in-mesh-history", e);
            return res;
        }
        Outcome::Panic(p) => {
            res.viol("C08", "panic-in-mesh-history", p);
            return res;
        }
    }
    // a last exchange so that replica 0 holds everything, then revisit every recorded head set
    let fin = guard(|| {
        for j in 1..n {
            let (a, b) = reps.split_at_mut(j);
            a[0].1.meld(&b[0].1)?;
        }
        reps[0].1.refresh()
    });
    if !fin.is_ok() {
        res.viol("C08", "final-sync-failed-in-mesh-history", fin.describe());
        return res;
    }
    let latest = observe(&reps[0].1);
    let mut order: Vec<usize> = (0..recorded.len()).collect();
    r.shuffle(&mut order);
    for k in order {
        let (h, exp) = &recorded[k];
        if h.is_empty() {
            continue;
        }
        let hs: BTreeSet<String> = h.iter().map(|x| x.to_string()).collect();
        let m = &reps[0].1;
        match guard(|| m.reload_until(h)) {
            Outcome::Ok(()) => {
                let st = observe(m);
                if st.s_value(false) != exp.s_value(false) {
                    res.viol("C14", "past-state-differs", format!("{} heads: {}", h.len(), exp.diff(&st)));
                }
                if st.anchors != hs {
                    res.viol("C14", "heads-after-travel", format!("{:?} vs {:?}", st.anchors, hs));
                }
            }
            Outcome::Err(e) => res.viol("C14", "reload_until-returned-error", e),
            Outcome::Panic(p) => {
                res.viol("C08", "panic-in-reload_until", p.clone());
                res.viol("C14", "reload_until-panicked", p);
                return res;
            }
        }
        let ad = reps[0].0.clone();
        engine::set_caps(caps);
        match guard(|| Melda::new_until(ad, h)) {
            Outcome::Ok(m2) => {
                let o2 = observe(&m2);
                if o2.s_value(false) != exp.s_value(false) {
                    res.viol("C14", "new_until-differs", exp.diff(&o2));
                }
            }
            o => res.viol("C14", "new_until-failed", o.describe()),
        }
        res.count("c14_travels_checked", 1);
        if h.len() >= 2 {
            res.feat_add("multi_head_travels", 1);
        }
    }
    let m = &reps[0].1;
    match guard(|| m.reload()) {
        Outcome::Ok(()) => {
            let back = observe(m);
            if back.s_value(false) != latest.s_value(false) || back.anchors != latest.anchors {
                res.viol("C14", "reload-does-not-return-to-latest", latest.diff(&back));
            }
        }
        o => res.viol("C14", "reload-after-travel-failed", o.describe()),
    }
    res.features.insert("replicas".into(), n as u64);
    res.features.insert("rounds".into(), rounds as u64);
    res.features.insert("max_parents".into(), max_parents as u64);
    res.features.insert("recorded_head_sets".into(), recorded.len() as u64);
    res.opkinds = format!("{}x{}:{}", n, rounds, max_parents);
    res.sample = Some(json!({"replicas": n, "rounds": rounds, "max_parents_of_a_block": max_parents, "head_sets_revisited": recorded.len()}));
    res
}

// ------------------------------------------------------------------------------------ C02 (objects known only to caches)
/// A pack-less block (its object was deduplicated against a pack the author held without the pack's
/// block) reaches a replica that does not hold that pack but has seen the same content before: staged
/// and discarded (object cache), created and removed (unreferenced staged object), or never.
/// The block must stay without effect, and the live replica must equal a fresh one on the same storage.
pub fn c02_cache_case(seed: u64, case: u64) -> CaseResult {
    use crate::gen;
    let mut res = CaseResult::default();
    let mut r = Rng::derive(seed, case, 0xCAC);
    let dp = gen::DocProfile::default();
    let caps = (*r.pick(&[1u32, 2, 16]), *r.pick(&[1u32, 2, 16]));
    let mut c = serde_json::Map::new();
    c.insert("v".into(), gen::rand_value(&mut r, &dp, 2));
    c.insert("w".into(), json!(r.below(1000)));
    let variant = r.below(3);
    let extra = r.below(20); // other objects written in between (cache pressure)
    let out = guard(|| {
        let (a1, _) = store::mon_mem();
        engine::set_caps(caps);
        let r1 = Melda::new(a1.clone())?;
        r1.create_object("x", c.clone())?;
        r1.commit(None)?;
        let f1 = store::dump(&a1);
        let (a2, _) = store::mon_mem();
        for (k, v) in &f1 {
            if k.ends_with(".pack") {
                store::put(&a2, k, v)?;
            }
        }
        let r2 = Melda::new(a2.clone())?;
        r2.create_object("y", c.clone())?;
        r2.commit(None)?;
        let f2 = store::dump(&a2);
        let (a0, _) = store::mon_mem();
        let mut r0 = Melda::new(a0.clone())?;
        match variant {
            0 => {
                r0.create_object("z", c.clone())?;
                r0.unstage()?;
            }
            1 => {
                r0.create_object("z", c.clone())?;
                r0.remove_object("z")?;
            }
            _ => {}
        }
        for i in 0..extra {
            r0.create_object(&format!("o{}", i), json!({"n": i}).as_object().unwrap().clone())?;
        }
        if extra > 0 {
            r0.commit(None)?;
        }
        for (k, v) in &f2 {
            if k.ends_with(".delta") {
                store::put(&a0, k, v)?;
            }
        }
        r0.refresh()?;
        Ok((r0, a0))
    });
    match out {
        Outcome::Ok((r0, a0)) => {
            let o = observe(&r0);
            let files = store::dump(&a0);
            check_vs_ref(&mut res, "C02", "cache-only-object", &o, &files);
            let rs = refmodel::build(&files);
            for (stem, _) in &rs.blocks {
                let ap = DeltaId::from(stem).ok().and_then(|id| r0.get_delta(&id).ok().flatten()).map(|d| d.verif_status() == "applied").unwrap_or(false);
                if ap != rs.complete.contains(stem) {
                    res.viol("C02", if ap { "incomplete-block-applied" } else { "complete-block-held-back" }, format!("variant {} caps {:?}: block {} applied={} although the object it names is in no stored pack", variant, caps, stem, ap));
                }
            }
            match open_with(&a0, caps) {
                Outcome::Ok(m2) => {
                    let o2 = observe(&m2);
                    if o2.s_value(false) != o.s_value(false) || o2.anchors != o.anchors {
                        res.viol("C02", "incremental-refresh-differs-from-reload", format!("variant {} caps {:?}: {}", variant, caps, o.diff(&o2)));
                        res.viol("C18", "state-depends-on-object-cache", format!("variant {} caps {:?}: {}", variant, caps, o.diff(&o2)));
                    }
                }
                oo => res.viol("C02", "reload-of-prefix-failed", oo.describe()),
            }
            res.count("c02_cache_scenarios", 1);
        }
        Outcome::Err(e) => res.viol("C08", "error-in-cache-scenario", e),
        Outcome::Panic(p) => res.viol("C08", "panic-in-cache-scenario", p),
    }
    res.features.insert("variant".into(), variant as u64);
    res.features.insert("extra_objects".into(), extra as u64);
    res.opkinds = format!("{}:{}:{:?}", variant, extra, caps);
    let vname = ["staged then unstaged (object cache)", "created then removed (unreferenced staged object)", "never seen"][variant];
    res.sample = Some(json!({"variant": vname, "caps": [caps.0, caps.1], "extra_objects": extra}));
    res
}

// ------------------------------------------------------------------------------------ C13 (verbatim redo from the past)
/// c1: D1, c2: D2, c3: back to D1 (every object is already in a pack, so the block names none);
/// travel to c2 and redo exactly that edit with the same metadata: the commit reproduces block c3
/// byte for byte.  It must be reported as the new (only) head, and the next commit must build on it.
pub fn c13_redo_case(seed: u64, case: u64) -> CaseResult {
    use crate::gen;
    let mut res = CaseResult::default();
    let mut r = Rng::derive(seed, case, 0xC13);
    let dp = gen::DocProfile { kind_change: false, ..gen::DocProfile::default() };
    let caps = (*r.pick(&[1u32, 2, 16]), *r.pick(&[1u32, 2, 16]));
    let (ad, st) = store::mon_mem();
    let m = match open_with(&ad, caps) {
        Outcome::Ok(m) => m,
        o => {
            res.aborted = Some(o.describe());
            return res;
        }
    };
    let d1 = gen::rand_doc(&mut r, &dp);
    let d2 = gen::mutate_doc(&mut r, &dp, &d1);
    let info = gen::rand_info(&mut r, 3);
    let out = guard(|| {
        m.update(d1.as_object().unwrap().clone())?;
        let c1 = m.commit(gen::rand_info(&mut r, 1))?;
        m.update(d2.as_object().unwrap().clone())?;
        let c2 = m.commit(gen::rand_info(&mut r, 2))?;
        m.update(d1.as_object().unwrap().clone())?;
        let c3 = m.commit(info.clone())?;
        Ok((c1, c2, c3))
    });
    let (c2, c3) = match out {
        Outcome::Ok((Some(_), Some(c2), Some(c3))) => (c2, c3),
        Outcome::Ok(_) => {
            // D2 == D1 (the mutation changed nothing): no such history, nothing to judge
            res.count("c13_redo_degenerate", 1);
            return res;
        }
        o => {
            res.viol("C08", "error-in-redo-history", o.describe());
            return res;
        }
    };
    let after_c3 = observe(&m);
    let nwrites = st.writes.lock().unwrap().len();
    let redo = guard(|| {
        m.reload_until(&c2)?;
        m.update(d1.as_object().unwrap().clone())?;
        m.commit(info.clone())
    });
    match redo {
        Outcome::Ok(Some(an)) => {
            let same_block = an == c3;
            if std::env::var("VERIF_DEBUG_REDO").is_ok() && !same_block {
                let files = store::dump(&ad);
                for a in c3.iter().chain(an.iter()) {
                    eprintln!("BLOCK {} {}", a, String::from_utf8_lossy(files.get(&a.key()).map(|v| v.as_slice()).unwrap_or(b"?")));
                }
            }
            res.features.insert("reproduced_existing_block".into(), same_block as u64);
            let rewrote = st.writes.lock().unwrap()[nwrites..].iter().any(|e| e.key.ends_with(".delta") && e.existed && e.same_bytes);
            res.features.insert("rewrote_identical_bytes".into(), rewrote as u64);
            let heads = m.get_anchors();
            if heads != an {
                res.viol("C13", "new-block-not-only-head", format!("commit returned {:?} but heads are {:?}", an.iter().map(|a| a.to_string()).collect::<Vec<_>>(), heads.iter().map(|a| a.to_string()).collect::<Vec<_>>()));
            }
            let o = observe(&m);
            if same_block && o.s_value(false) != after_c3.s_value(false) {
                res.viol("C13", "redone-commit-shows-another-state", after_c3.diff(&o));
            }
            // the next commit builds on it
            let d3 = gen::mutate_doc(&mut r, &dp, &d1);
            let nxt = guard(|| {
                m.update(d3.as_object().unwrap().clone())?;
                m.commit(None)
            });
            if let Outcome::Ok(Some(n)) = nxt {
                for a in &n {
                    if let Ok(Some(d)) = m.get_delta(a) {
                        if d.parents.as_ref() != Some(&an) {
                            res.viol("C13", "parents-not-previous-heads", format!("{:?} vs {:?}", d.parents.map(|p| p.iter().map(|x| x.to_string()).collect::<Vec<_>>()), an.iter().map(|x| x.to_string()).collect::<Vec<_>>()));
                        }
                    }
                }
            }
            // a fresh replica agrees with the live one (when the redo produced a twin with other bytes the
            // live replica is simply in the past of a storage that also holds the original block)
            if !same_block {
                res.count("c13_redo_scenarios", 1);
                res.opkinds = format!("{:?}", res.features);
                return res;
            }
            if let Outcome::Ok(f) = open_with(&ad, caps) {
                let of = observe(&f);
                let ol = observe(&m);
                if of.s_value(false) != ol.s_value(false) || of.anchors != ol.anchors {
                    res.viol("C03", "reopen-differs", ol.diff(&of));
                }
            }
            res.count("c13_redo_scenarios", 1);
        }
        Outcome::Ok(None) => res.viol("C13", "redo-commit-reported-nothing", String::new()),
        o => res.viol("C08", "error-in-redo-history", o.describe()),
    }
    res.opkinds = format!("{:?}", res.features);
    res.sample = Some(json!({"d1": d1, "d2": d2, "info": info.map(serde_json::Value::Object)}));
    res
}
