//! System-level array monitors: C06 (concurrent edits merge), C07 (every leaf on forked
//! replicas, propagation, independent resolutions), C16 (delta chains under small caches).
use crate::engine::{self, find_array, ids_of, is_deleted_rev, open_with, set_caps, CaseResult, Profile, World};
use crate::gen::FLAT;
use crate::obs::{guard, observe, read_doc, Outcome};
use crate::rng::Rng;
use crate::store;
use melda::melda::Melda;
use serde_json::{json, Value};
use std::collections::{BTreeMap, BTreeSet};

const A: &str = "^\u{221A}@items\u{266D}";
const B: &str = "^\u{221A}@tags\u{266D}";

fn doc2(x: &[String], y: &[String], ver: &BTreeMap<String, u32>) -> Value {
    let f = |v: &[String]| -> Vec<Value> { v.iter().map(|i| json!({"_id": i, "v": ver.get(i).copied().unwrap_or(0)})).collect() };
    let mut m = serde_json::Map::new();
    m.insert(format!("items{}", FLAT), Value::Array(f(x)));
    m.insert(format!("tags{}", FLAT), Value::Array(f(y)));
    Value::Object(m)
}
fn edit(r: &mut Rng, x: &mut Vec<String>, y: &mut Vec<String>, ver: &mut BTreeMap<String, u32>) {
    let ids: Vec<String> = (0..8).map(|i| format!("e{}", i)).collect();
    for _ in 0..1 + r.below(3) {
        let (s, o) = if r.below(2) == 0 { (&mut *x, &mut *y) } else { (&mut *y, &mut *x) };
        match r.below(6) {
            0 | 5 => {
                let id = ids[r.below(8)].clone();
                if !s.contains(&id) && !o.contains(&id) {
                    let p = r.below(s.len() + 1);
                    s.insert(p, id);
                }
            }
            1 => {
                if !s.is_empty() {
                    let p = r.below(s.len());
                    s.remove(p);
                }
            }
            2 => {
                if s.len() > 1 {
                    let p = r.below(s.len());
                    let e = s.remove(p);
                    let q = r.below(s.len() + 1);
                    s.insert(q, e);
                }
            }
            3 => {
                if !s.is_empty() {
                    let p = r.below(s.len());
                    let e = s.remove(p);
                    let q = r.below(o.len() + 1);
                    o.insert(q, e);
                }
            }
            _ => {
                if !s.is_empty() {
                    let e = s[r.below(s.len())].clone();
                    *ver.entry(e).or_insert(0) += 1;
                }
            }
        }
    }
}
fn arr(d: &Value, k: &str) -> Vec<String> {
    d[k].as_array().map(|a| ids_of(a)).unwrap_or_default()
}
fn leaf_orders(m: &Melda, u: &str) -> Vec<(String, Vec<String>)> {
    let w = match m.get_winner(u) {
        Ok(w) => w,
        Err(_) => return vec![],
    };
    let mut l: Vec<String> = m.get_conflicting(u).map(|s| s.into_iter().collect()).unwrap_or_default();
    l.insert(0, w);
    l.into_iter()
        .map(|r| {
            let o = m.verif_array_order(u, &r).map(|v| v.iter().filter_map(|x| x.as_str().map(|s| s.to_string())).collect()).unwrap_or_default();
            (r, o)
        })
        .collect()
}

pub fn c06_case(seed: u64, case: u64) -> CaseResult {
    let mut res = CaseResult::default();
    let mut r = Rng::derive(seed, case, 0xC06);
    let nrep = 2 + r.below(2);
    let caps_pool = [1u32, 2, 3, 16];
    let mut reps: Vec<(store::Ad, Melda)> = vec![];
    for _ in 0..nrep {
        let (ad, _) = store::mon_mem();
        match open_with(&ad, (*r.pick(&caps_pool), *r.pick(&caps_pool))) {
            Outcome::Ok(m) => reps.push((ad, m)),
            o => {
                res.aborted = Some(o.describe());
                return res;
            }
        }
    }
    let x: Vec<String> = vec!["e0".into(), "e1".into(), "e2".into()];
    let y: Vec<String> = vec!["e3".into()];
    let ver = BTreeMap::new();
    let mut log: Vec<String> = vec![];
    let mut finals: Vec<(Vec<String>, Vec<String>, BTreeMap<String, u32>)> = vec![];
    // phase 1: common origin, concurrent edits, replica 0 collects everybody's blocks
    let run = guard(|| {
        reps[0].1.update(doc2(&x, &y, &ver).as_object().unwrap().clone())?;
        reps[0].1.commit(None)?;
        for i in 1..nrep {
            let (a, b) = reps.split_at_mut(i);
            b[0].1.meld(&a[0].1)?;
            b[0].1.refresh()?;
        }
        // sometimes every replica ends with the very same edit (same element prepended, or the head
        // removed), so that the last edit scripts of the branches are identical
        let same_last = r.below(5);
        for i in 0..nrep {
            let (mut xi, mut yi, mut vi) = (x.clone(), y.clone(), ver.clone());
            for _ in 0..1 + r.below(2) {
                edit(&mut r, &mut xi, &mut yi, &mut vi);
                let d = doc2(&xi, &yi, &vi);
                log.push(format!("r{}: {}", i, d));
                reps[i].1.update(d.as_object().unwrap().clone())?;
                reps[i].1.commit(None)?;
            }
            if same_last <= 1 {
                if same_last == 0 {
                    xi.retain(|e| e != "e9");
                    yi.retain(|e| e != "e9");
                    xi.insert(0, "e9".into());
                } else if !xi.is_empty() {
                    xi.remove(0);
                }
                let d = doc2(&xi, &yi, &vi);
                log.push(format!("r{} (same last edit): {}", i, d));
                reps[i].1.update(d.as_object().unwrap().clone())?;
                reps[i].1.commit(None)?;
            }
            finals.push((xi, yi, vi));
        }
        for j in 1..nrep {
            let (a, b) = reps.split_at_mut(j);
            a[0].1.meld(&b[0].1)?;
        }
        reps[0].1.refresh()
    });
    res.trace = log.clone();
    match run {
        Outcome::Ok(()) => {}
        Outcome::Err(e) => {
            res.viol("C08", "operation-returned-error-in-merge-history", e);
            return res;
        }
        Outcome::Panic(p) => {
            res.viol("C08", "panic-in-merge-history", p.clone());
            res.viol("C06", "merge-history-panicked", p);
            return res;
        }
    }
    let mut max_leaves = 0u64;
    let mut agree_total = 0u64;
    let mut sample = json!(null);
    // the merge oracle, on replica 0
    let mut judge = |m: &Melda, phase: &str, res: &mut CaseResult, log: &Vec<String>| -> Option<String> {
        let (ds, ok) = read_doc(m);
        if !ok {
            res.viol("C06", "read-after-merge-failed", format!("{}: {}", phase, ds));
            return None;
        }
        let d: Value = serde_json::from_str(&ds).unwrap();
        let ka = format!("items{}", FLAT);
        let kb = format!("tags{}", FLAT);
        let ra = arr(&d, &ka);
        let rb = arr(&d, &kb);
        let la = leaf_orders(m, A);
        let lb = leaf_orders(m, B);
        max_leaves = max_leaves.max(la.len().max(lb.len()) as u64);
        let deleted = |id: &str| m.get_winner(id).map(|w| is_deleted_rev(&w)).unwrap_or(true);
        let mut want: BTreeSet<String> = BTreeSet::new();
        let mut dead: BTreeSet<String> = BTreeSet::new();
        for (_, o) in la.iter().chain(lb.iter()) {
            for e in o {
                if !deleted(e) {
                    want.insert(e.clone());
                } else {
                    dead.insert(e.clone());
                }
            }
        }
        let all: Vec<String> = ra.iter().chain(rb.iter()).cloned().collect();
        let got: BTreeSet<String> = all.iter().cloned().collect();
        let ctx = format!("{}: edits {:?}; leaves items {:?}; leaves tags {:?}; read items {:?} tags {:?}", phase, log, la, lb, ra, rb);
        if got.len() != all.len() {
            res.viol("C06", "element-duplicated", ctx.clone());
        }
        if !want.is_subset(&got) {
            res.viol("C06", "element-lost", format!("missing {:?}; {}", want.difference(&got).collect::<Vec<_>>(), ctx));
        }
        if got.iter().any(|e| dead.contains(e)) {
            res.viol("C06", "deleted-element-reappears", ctx.clone());
        }
        if !got.is_subset(&want) && !got.iter().any(|e| dead.contains(e)) {
            res.viol("C06", "unexpected-element", format!("extra {:?}; {}", got.difference(&want).collect::<Vec<_>>(), ctx));
        }
        for (name, rs, leaves) in [("items", &ra, &la), ("tags", &rb, &lb)] {
            if leaves.is_empty() {
                continue;
            }
            let wo: Vec<&String> = leaves[0].1.iter().filter(|e| rs.contains(e)).collect();
            let ro: Vec<&String> = rs.iter().filter(|e| leaves[0].1.contains(e)).collect();
            if wo != ro {
                res.viol("C06", &format!("winner-order-not-kept-{}", name), ctx.clone());
            }
            if leaves.len() == 2 {
                let (p, q) = (&leaves[0].1, &leaves[1].1);
                let cp: Vec<&String> = p.iter().filter(|e| q.contains(e)).collect();
                let cq: Vec<&String> = q.iter().filter(|e| p.contains(e)).collect();
                if cp == cq {
                    agree_total += 1;
                    let qo: Vec<&String> = q.iter().filter(|e| rs.contains(e)).collect();
                    let rq: Vec<&String> = rs.iter().filter(|e| q.contains(e)).collect();
                    if qo != rq {
                        res.viol("C06", &format!("compatible-order-not-kept-{}", name), ctx.clone());
                    }
                }
            }
        }
        res.count("c06_merges_checked", 1);
        sample = json!({"phase": phase, "edits": log, "leaves_items": la, "leaves_tags": lb, "read_items": ra, "read_tags": rb});
        Some(ds)
    };
    judge(&reps[0].1, "first sync", &mut res, &log);
    // phase 2: the other replicas, which have not synchronised, extend their own branches (which may keep
    // losing); replica 0, which has already read the merged arrays, receives the new blocks and reads again
    let mut log2 = log.clone();
    let run2 = guard(|| {
        for i in 1..nrep {
            let (mut xi, mut yi, mut vi) = finals[i].clone();
            edit(&mut r, &mut xi, &mut yi, &mut vi);
            let d = doc2(&xi, &yi, &vi);
            log2.push(format!("r{} (after r0 read): {}", i, d));
            reps[i].1.update(d.as_object().unwrap().clone())?;
            reps[i].1.commit(None)?;
        }
        for j in 1..nrep {
            let (a, b) = reps.split_at_mut(j);
            a[0].1.meld(&b[0].1)?;
        }
        reps[0].1.refresh()
    });
    match run2 {
        Outcome::Ok(()) => {
            let ds0 = judge(&reps[0].1, "second sync", &mut res, &log2);
            // a replica that loads the same items from scratch must read the same document
            if let (Some(ds0), Outcome::Ok(fresh)) = (ds0, open_with(&store::mem_with(&store::dump(&reps[0].0)), (16, 16))) {
                let (df, _) = read_doc(&fresh);
                if df != ds0 {
                    // two merges that both satisfy C06 may still differ from each other: that is C01's business
                    res.viol("C01", "incrementally-merged-arrays-differ-from-fresh-load", format!("live {} vs fresh {}", ds0, df));
                }
            }
        }
        Outcome::Err(e) => res.viol("C08", "operation-returned-error-in-merge-history", e),
        Outcome::Panic(p) => {
            res.viol("C08", "panic-in-merge-history", p.clone());
            res.viol("C06", "merge-history-panicked", p);
            return res;
        }
    }
    drop(judge);
    // finally everybody synchronises: all replicas read the same arrays
    let fin = guard(|| {
        for _ in 0..2 {
            for i in 0..nrep {
                for j in 0..nrep {
                    if i != j {
                        let (a, b) = if i < j {
                            let (p, q) = reps.split_at_mut(j);
                            (&mut p[i], &mut q[0])
                        } else {
                            let (p, q) = reps.split_at_mut(i);
                            (&mut q[0], &mut p[j])
                        };
                        a.1.meld(&b.1)?;
                        a.1.refresh()?;
                    }
                }
            }
        }
        Ok(())
    });
    if fin.is_ok() {
        let (d0, _) = read_doc(&reps[0].1);
        for i in 1..nrep {
            let (di, _) = read_doc(&reps[i].1);
            if di != d0 {
                res.viol("C01", "replicas-read-different-merged-arrays", format!("r0 {} vs r{} {}", d0, i, di));
            }
        }
    }
    res.trace = log2;
    res.features.insert("leaves".into(), max_leaves);
    res.features.insert("order_compatible".into(), agree_total);
    res.opkinds = format!("{:?}", sample.get("leaves_items"));
    res.sample = Some(sample);
    res
}
pub fn c06_nontrivial(res: &CaseResult) -> bool {
    res.feat("leaves") >= 2
}

// ------------------------------------------------------------------------------------ C07
pub fn c07_case(seed: u64, case: u64, prof: &Profile) -> CaseResult {
    let mut w: World = engine::run_case(seed, case, prof);
    if w.res.aborted.is_some() || w.reps.iter().any(|r| r.dead) || w.res.counters.get("c01_final_exchanges").is_none() {
        if w.res.aborted.is_none() {
            w.res.aborted = Some("history did not reach the final exchange".into());
        }
        return std::mem::take(&mut w.res);
    }
    let mut r = Rng::derive(seed, case, 0xC07);
    // optionally stage an edit on top of the conflicted state; forks replay the export
    let mut stage: Option<Value> = None;
    if r.chance(35) && w.reps[0].cur.doc_ok {
        let base: Value = serde_json::from_str(&w.reps[0].cur.doc).unwrap();
        let p = prof.doc.clone();
        let d = crate::gen::mutate_doc(&mut r, &p, &base);
        let m = &w.reps[0].m;
        if guard(|| m.update(d.as_object().unwrap().clone())).is_ok() {
            stage = m.stage().ok().flatten();
            w.res.feat_add("forks_with_staged_changes", 1);
        }
    }
    let files = w.files_of(0);
    let base_obs = observe(&w.reps[0].m);
    let conf: Vec<String> = base_obs.in_conflict.iter().cloned().collect();
    let nbase = w.reps.len();
    let caps_pool = prof.caps.clone();
    let mut budget = 24usize;
    for u in &conf {
        let o = &base_obs.objects[u];
        let mut leaves: Vec<String> = o.conflicting.clone();
        leaves.push(o.winner.clone());
        leaves.sort();
        let mut committed_forks: Vec<(String, usize)> = vec![];
        for l in &leaves {
            if budget == 0 {
                break;
            }
            budget -= 1;
            let caps = (*r.pick(&caps_pool), *r.pick(&caps_pool));
            let fi = match w.add_fork(&files, &stage, caps) {
                Some(i) => i,
                None => continue,
            };
            let before = w.reps[fi].cur.clone();
            if before.s_value(true) != base_obs.s_value(true) {
                w.res.viol("C15", "fork-by-replay-differs-from-original", base_obs.diff(&before));
            }
            w.resolve_check(fi, u, l, &before);
            if w.reps[fi].dead {
                continue;
            }
            // propagate: commit, deliver to a fresh replica, compare
            let after = observe(&w.reps[fi].m);
            let cm = {
                let m = &w.reps[fi].m;
                guard(|| m.commit(None))
            };
            match cm {
                Outcome::Ok(Some(_)) => {
                    let after_commit = observe(&w.reps[fi].m);
                    if after_commit.doc != after.doc {
                        w.res.viol("C12", "commit-after-resolve-changes-document", after.diff(&after_commit));
                    }
                    let (ga, _) = store::mon_mem();
                    set_caps(caps);
                    let gm = guard(|| {
                        let mut g = Melda::new(ga.clone())?;
                        g.meld(&w.reps[fi].m)?;
                        g.refresh()?;
                        Ok(g)
                    });
                    match gm {
                        Outcome::Ok(g) => {
                            let og = observe(&g);
                            if og.s_value(false) != after_commit.s_value(false) {
                                w.res.viol("C07", "resolution-not-propagated", after_commit.diff(&og));
                            }
                            if og.in_conflict.contains(u) {
                                w.res.viol("C07", "receiver-still-in-conflict", format!("{} {}", u, l));
                            }
                            w.res.count("c07_propagations_checked", 1);
                        }
                        o => w.res.viol("C07", "propagation-failed", o.describe()),
                    }
                    committed_forks.push((l.clone(), fi));
                }
                Outcome::Ok(None) => {
                    w.res.viol("C07", "resolution-staged-nothing", format!("{} {}", u, l));
                }
                o => {
                    if let Outcome::Panic(p) = &o {
                        w.res.viol("C08", "panic-in-commit-after-resolve", p.clone());
                    }
                    w.res.viol("C07", "commit-after-resolve-failed", o.describe());
                }
            }
        }
        // independent resolutions on different replicas still converge
        if committed_forks.len() >= 2 {
            let (la, ia) = committed_forks[0].clone();
            let (lb, ib) = committed_forks[committed_forks.len() - 1].clone();
            let ex = {
                let (a, b) = if ia < ib {
                    let (p, q) = w.reps.split_at_mut(ib);
                    (&mut p[ia], &mut q[0])
                } else {
                    let (p, q) = w.reps.split_at_mut(ia);
                    (&mut q[0], &mut p[ib])
                };
                guard(|| {
                    for _ in 0..2 {
                        a.m.meld(&b.m)?;
                        a.m.refresh()?;
                        b.m.meld(&a.m)?;
                        b.m.refresh()?;
                    }
                    Ok(())
                })
            };
            match ex {
                Outcome::Ok(()) => {
                    let (oa, ob) = (observe(&w.reps[ia].m), observe(&w.reps[ib].m));
                    if oa.s_value(false) != ob.s_value(false) || oa.anchors != ob.anchors {
                        w.res.viol("C07", "independent-resolutions-diverge", format!("{} chose {} / {}: {}", u, la, lb, oa.diff(&ob)));
                    }
                    w.res.count("c07_independent_pairs", 1);
                    w.res.feat_add("independent_resolution_pairs", 1);
                }
                o => {
                    if let Outcome::Panic(p) = &o {
                        w.res.viol("C08", "panic-in-exchange-after-resolve", p.clone());
                    }
                    w.res.viol("C07", "exchange-after-independent-resolutions-failed", o.describe());
                }
            }
        }
        w.reps.truncate(nbase);
    }
    std::mem::take(&mut w.res)
}
pub fn c07_nontrivial(res: &CaseResult) -> bool {
    res.feat("resolutions_3plus_leaves") >= 1 || res.feat("deleted_leaf_chosen") >= 1 || res.feat("array_resolutions") >= 1
}

// ------------------------------------------------------------------------------------ C16
pub fn c16_case(seed: u64, case: u64, steps: usize) -> CaseResult {
    let mut res = CaseResult::default();
    let mut r = Rng::derive(seed, case, 0xC16);
    let caps_pool = [1u32, 1, 2, 3, 16];
    let cap = *r.pick(&caps_pool);
    let dcap = *r.pick(&caps_pool);
    let (ad, _) = store::mon_mem();
    let mut m = match open_with(&ad, (cap, dcap)) {
        Outcome::Ok(m) => m,
        o => {
            res.aborted = Some(o.describe());
            return res;
        }
    };
    let ids: Vec<String> = (0..12).map(|i| format!("i{}", i)).collect();
    let tids: Vec<String> = (0..8).map(|i| format!("t{}", i)).collect();
    let mut cur: Vec<String> = vec![];
    let mut cur2: Vec<String> = vec![];
    // (descriptor, revision, array submitted when the revision was created)
    let mut recorded: Vec<(&'static str, String, Vec<String>)> = vec![];
    let key = format!("items{}", FLAT);
    let key2 = format!("tags{}", FLAT);
    let mut reopens = 0u64;
    let mut conflicts = 0u64;
    let mut last_script = 0usize;
    fn mkdoc(key: &str, key2: &str, a: &[String], b: &[String], step: usize) -> serde_json::Map<String, Value> {
        let mut d = serde_json::Map::new();
        d.insert(key.to_string(), Value::Array(a.iter().map(|i| json!({"_id": i})).collect()));
        d.insert(key2.to_string(), Value::Array(b.iter().map(|i| json!({"_id": i})).collect()));
        d.insert("s".into(), json!(step));
        d
    }
    fn edit_chain(r: &mut Rng, cur: &mut Vec<String>, ids: &[String], script: usize) {
        match script {
            0 => {
                if !cur.is_empty() {
                    cur.remove(0);
                }
            }
            1 => cur.clear(),
            2 => cur.reverse(),
            3 => {
                if cur.len() > 1 {
                    let x = cur.remove(0);
                    cur.push(x);
                }
            }
            4 => {
                for id in ids {
                    if !cur.contains(id) && r.chance(40) {
                        cur.push(id.clone());
                    }
                }
            }
            5 => {
                if cur.len() > 2 {
                    let i = r.below(cur.len() - 1);
                    cur.swap(i, i + 1);
                }
            }
            _ => {
                let id = ids[r.below(ids.len())].clone();
                if !cur.contains(&id) {
                    let p = r.below(cur.len() + 1);
                    cur.insert(p, id);
                } else {
                    cur.retain(|x| x != &id);
                }
            }
        }
    }
    for step in 0..steps {
        let script = if r.chance(25) { last_script } else { r.below(9) };
        last_script = script;
        edit_chain(&mut r, &mut cur, &ids, script);
        if r.chance(50) {
            let s2 = r.below(9);
            edit_chain(&mut r, &mut cur2, &tids, s2);
        }
        let d = mkdoc(&key, &key2, &cur, &cur2, step);
        res.trace.push(format!("update items={:?} tags={:?}", cur, cur2));
        let in_conflict_before = m.in_conflict().iter().any(|u| u.starts_with('^'));
        let up = {
            let mm = &m;
            guard(|| mm.update(d.clone()))
        };
        if !up.is_ok() {
            if let Outcome::Panic(p) = &up {
                res.viol("C08", "panic-in-update", p.clone());
            }
            res.viol("C16", "update-failed-in-chain", up.describe());
            return res;
        }
        if let Ok(wv) = m.get_winner(A) {
            recorded.push((A, wv, cur.clone()));
        }
        if let Ok(wv) = m.get_winner(B) {
            recorded.push((B, wv, cur2.clone()));
        }
        let (ds, ok) = read_doc(&m);
        res.count("c16_reads_checked", 1);
        if !ok {
            res.viol("C16", "read-failed-in-chain", ds);
            return res;
        }
        if !in_conflict_before {
            let dv: Value = serde_json::from_str(&ds).unwrap();
            let got = find_array(&dv, A).map(|a| ids_of(a)).unwrap_or_default();
            let got2 = find_array(&dv, B).map(|a| ids_of(a)).unwrap_or_default();
            if got != cur || got2 != cur2 {
                res.viol("C16", "read-differs-from-submitted-array", format!("step {} cap {}: {:?}/{:?} vs {:?}/{:?}", step, cap, got, got2, cur, cur2));
            }
        }
        if r.below(4) == 0 {
            let mm = &m;
            let c = guard(|| mm.commit(None));
            if !c.is_ok() {
                res.viol("C16", "commit-failed-in-chain", c.describe());
                return res;
            }
            res.trace.push("commit".into());
        }
        if r.below(15) == 0 {
            let mm = &m;
            let c = guard(|| mm.stage_full_snapshot());
            if !c.is_ok() {
                res.viol("C16", "snapshot-failed-in-chain", c.describe());
                return res;
            }
            res.trace.push("stage_full_snapshot".into());
            res.feat_add("snapshots", 1);
        }
        if r.below(12) == 0 {
            let mm = &m;
            let _ = guard(|| mm.commit(None));
            match open_with(&ad, (cap, dcap)) {
                Outcome::Ok(m2) => {
                    m = m2;
                    reopens += 1;
                    res.trace.push("reopen".into());
                }
                o => {
                    res.viol("C03", "reopen-failed-in-chain", o.describe());
                    return res;
                }
            }
        }
        if r.below(14) == 0 {
            // a peer branches from the committed state, both sides edit, the peer's block comes back:
            // the chain continues while the arrays have two live leaves
            let (pad, _) = store::mon_mem();
            let mut pa = cur.clone();
            let mut pb = cur2.clone();
            let out = guard(|| {
                m.commit(None)?;
                set_caps((cap, dcap));
                let mut peer = Melda::new(pad.clone())?;
                peer.meld(&m)?;
                peer.refresh()?;
                edit_chain(&mut r, &mut pa, &ids, 6);
                edit_chain(&mut r, &mut pa, &ids, 6);
                edit_chain(&mut r, &mut pb, &tids, 6);
                peer.update(mkdoc(&key, &key2, &pa, &pb, 1000 + step))?;
                let wa = peer.get_winner(A)?;
                let wb = peer.get_winner(B)?;
                peer.commit(None)?;
                edit_chain(&mut r, &mut cur, &ids, 6);
                edit_chain(&mut r, &mut cur2, &tids, 3);
                m.update(mkdoc(&key, &key2, &cur, &cur2, 2000 + step))?;
                let ma = m.get_winner(A)?;
                let mb = m.get_winner(B)?;
                m.commit(None)?;
                m.meld(&peer)?;
                m.refresh()?;
                Ok((wa, wb, ma, mb))
            });
            match out {
                Outcome::Ok((wa, wb, ma, mb)) => {
                    recorded.push((A, wa, pa.clone()));
                    recorded.push((B, wb, pb.clone()));
                    recorded.push((A, ma, cur.clone()));
                    recorded.push((B, mb, cur2.clone()));
                    conflicts += 1;
                    res.trace.push(format!("peer branch: peer items={:?} tags={:?}; own items={:?} tags={:?}; melded back", pa, pb, cur, cur2));
                    // from here the replica's own view is the merged one; the next submitted arrays start from it
                    if let (ds, true) = read_doc(&m) {
                        let dv: Value = serde_json::from_str(&ds).unwrap();
                        cur = find_array(&dv, A).map(|a| ids_of(a)).unwrap_or_default();
                        cur2 = find_array(&dv, B).map(|a| ids_of(a)).unwrap_or_default();
                    }
                }
                o => {
                    if let Outcome::Panic(p) = &o {
                        res.viol("C08", "panic-in-peer-branch", p.clone());
                    }
                    res.viol("C16", "peer-branch-failed-in-chain", o.describe());
                    return res;
                }
            }
        }
        // every historical revision reconstructs to what was submitted, in random query order
        for _ in 0..4 {
            let (u, rev, exp) = &recorded[r.below(recorded.len())];
            let mm = &m;
            match guard(|| mm.verif_array_order(u, rev)) {
                Outcome::Ok(o) => {
                    let o: Vec<String> = o.iter().filter_map(|x| x.as_str().map(|s| s.to_string())).collect();
                    res.count("c16_historical_reconstructions", 1);
                    if &o != exp {
                        res.viol("C16", "historical-version-reconstructs-differently", format!("cap {} {} rev {}: {:?} vs submitted {:?}", cap, u, rev, o, exp));
                    }
                }
                Outcome::Err(e) => {
                    res.viol("C16", "historical-version-not-reconstructible", format!("{} {} {}", u, rev, e));
                }
                Outcome::Panic(p) => {
                    res.viol("C16", "reconstruction-panicked", p);
                    return res;
                }
            }
        }
    }
    let maxidx = recorded.iter().filter_map(|(_, r, _)| crate::refmodel::rev_parts(r).map(|p| p.0)).max().unwrap_or(0);
    res.features.insert("chain_length".into(), maxidx as u64);
    res.features.insert("cache_cap".into(), cap as u64);
    res.features.insert("reopens".into(), reopens);
    res.features.insert("edits_under_conflict".into(), conflicts);
    res.opkinds = format!("{}-{}-{}", cap, dcap, steps);
    res.sample = Some(json!({"cache_cap": cap, "chain_length": maxidx, "reopens": reopens, "peer_branches": conflicts, "last_items": cur, "last_tags": cur2}));
    res
}
pub fn c16_nontrivial(res: &CaseResult) -> bool {
    res.feat("chain_length") >= 20 && res.feat("reopens") >= 1
}
