//! Observer: what a replica exposes through its public API (plus the read-only hooks).
use crate::gen::sha;
use melda::melda::Melda;
use serde_json::{json, Value};
use std::collections::{BTreeMap, BTreeSet};
use std::panic::{catch_unwind, AssertUnwindSafe};
use std::sync::Mutex;

pub static LAST_PANIC: Mutex<String> = Mutex::new(String::new());

pub fn install_panic_hook() {
    std::panic::set_hook(Box::new(|i| {
        let s: String = format!("{}", i).chars().take(300).collect();
        *LAST_PANIC.lock().unwrap_or_else(|e| e.into_inner()) = s;
    }));
}
pub fn last_panic() -> String {
    LAST_PANIC.lock().unwrap_or_else(|e| e.into_inner()).clone()
}

#[derive(Debug)]
pub enum Outcome<T> {
    Ok(T),
    Err(String),
    Panic(String),
}
impl<T> Outcome<T> {
    pub fn is_ok(&self) -> bool {
        matches!(self, Outcome::Ok(_))
    }
    pub fn describe(&self) -> String {
        match self {
            Outcome::Ok(_) => "ok".into(),
            Outcome::Err(e) => format!("ERR {}", e),
            Outcome::Panic(p) => format!("PANIC {}", p),
        }
    }
}
pub fn guard<T>(f: impl FnOnce() -> anyhow::Result<T>) -> Outcome<T> {
    match catch_unwind(AssertUnwindSafe(f)) {
        Ok(Ok(v)) => Outcome::Ok(v),
        Ok(Err(e)) => Outcome::Err(format!("{}", e).chars().take(300).collect()),
        Err(_) => Outcome::Panic(last_panic()),
    }
}
pub fn guard_plain<T>(f: impl FnOnce() -> T) -> Outcome<T> {
    match catch_unwind(AssertUnwindSafe(f)) {
        Ok(v) => Outcome::Ok(v),
        Err(_) => Outcome::Panic(last_panic()),
    }
}

#[derive(Clone, Debug, PartialEq)]
pub struct ObjObs {
    pub winner: String,
    pub conflicting: Vec<String>,
    /// (revision, parent, staged)
    pub revs: Vec<(String, Option<String>, bool)>,
}

#[derive(Clone, Debug, PartialEq)]
pub struct Obs {
    pub objects: BTreeMap<String, ObjObs>,
    pub in_conflict: BTreeSet<String>,
    /// serde_json serialisation of read(None), or "ERR ..." / "PANIC ..."
    pub doc: String,
    pub doc_ok: bool,
    pub has_staging: bool,
    /// order-normalised stage export
    pub stage: Option<String>,
    pub anchors: BTreeSet<String>,
    pub broken: bool,
}

pub fn norm_stage(v: &Value) -> String {
    let mut v = v.clone();
    if let Some(c) = v.get_mut("c").and_then(|c| c.as_array_mut()) {
        c.sort_by_key(|x| x.to_string());
    }
    v.to_string()
}

pub fn read_doc(m: &Melda) -> (String, bool) {
    match guard(|| m.read(None)) {
        Outcome::Ok(d) => (serde_json::to_string(&d).unwrap(), true),
        Outcome::Err(e) => (format!("ERR {}", e), false),
        Outcome::Panic(p) => (format!("PANIC {}", p), false),
    }
}

pub fn observe(m: &Melda) -> Obs {
    let r = catch_unwind(AssertUnwindSafe(|| {
        let mut objects = BTreeMap::new();
        for u in m.get_all_objects() {
            let winner = m.get_winner(&u).unwrap_or_else(|e| format!("ERR {}", e));
            let conflicting: Vec<String> = m.get_conflicting(&u).map(|s| s.into_iter().collect()).unwrap_or_default();
            let revs = m.verif_revisions(&u);
            objects.insert(u, ObjObs { winner, conflicting, revs });
        }
        let in_conflict = m.in_conflict();
        let (doc, doc_ok) = read_doc(m);
        let has_staging = m.has_staging();
        let stage = match m.stage() {
            Ok(Some(v)) => Some(norm_stage(&v)),
            Ok(None) => None,
            Err(e) => Some(format!("ERR {}", e)),
        };
        let anchors = m.get_anchors().iter().map(|a| a.to_string()).collect();
        Obs { objects, in_conflict, doc, doc_ok, has_staging, stage, anchors, broken: false }
    }));
    r.unwrap_or_else(|_| Obs {
        objects: BTreeMap::new(),
        in_conflict: BTreeSet::new(),
        doc: format!("OBS_PANIC {}", last_panic()),
        doc_ok: false,
        has_staging: false,
        stage: None,
        anchors: BTreeSet::new(),
        broken: true,
    })
}

impl Obs {
    pub fn staged(&self) -> bool {
        self.has_staging || self.stage.is_some()
    }
    /// Revision-level state S: objects, winners, conflict sets, revision sets, document.
    pub fn s_value(&self, staged_flags: bool) -> Value {
        let objs: BTreeMap<&String, Value> = self
            .objects
            .iter()
            .map(|(u, o)| {
                let revs: Vec<Value> = o.revs.iter().map(|(r, p, s)| if staged_flags { json!([r, p, s]) } else { json!([r, p]) }).collect();
                (u, json!({"w": o.winner, "c": o.conflicting, "r": revs}))
            })
            .collect();
        json!({"objects": objs, "in_conflict": self.in_conflict, "doc": self.doc})
    }
    pub fn s_string(&self) -> String {
        self.s_value(false).to_string()
    }
    /// Cross-run comparable digest (no block / pack names)
    pub fn state_digest(&self) -> String {
        let v = json!({"s": self.s_value(true), "staging": self.has_staging, "stage": self.stage});
        sha(v.to_string().as_bytes())[..16].to_string()
    }
    pub fn diff(&self, other: &Obs) -> String {
        let mut out = vec![];
        if self.doc != other.doc {
            out.push(format!("doc: {} | vs | {}", trunc(&self.doc, 600), trunc(&other.doc, 600)));
        }
        if self.in_conflict != other.in_conflict {
            out.push(format!("in_conflict: {:?} vs {:?}", self.in_conflict, other.in_conflict));
        }
        let keys: BTreeSet<&String> = self.objects.keys().chain(other.objects.keys()).collect();
        for k in keys {
            let a = self.objects.get(k);
            let b = other.objects.get(k);
            let strip = |o: Option<&ObjObs>| o.map(|o| (o.winner.clone(), o.conflicting.clone(), o.revs.iter().map(|(r, p, _)| (r.clone(), p.clone())).collect::<Vec<_>>()));
            if strip(a) != strip(b) {
                out.push(format!("object {:?}: {:?} vs {:?}", k, a, b));
                if out.len() > 4 {
                    break;
                }
            }
        }
        trunc(&out.join("; "), 1800)
    }
}

pub fn trunc(s: &str, n: usize) -> String {
    if s.chars().count() <= n {
        s.to_string()
    } else {
        let t: String = s.chars().take(n).collect();
        format!("{}…", t)
    }
}

/// graph shape (comparable across runs): #heads, head indices, #applied, multiset of (index, #parents)
pub fn graph_digest(m: &Melda, stems: &[String]) -> String {
    let mut shape: Vec<(u32, usize, String)> = vec![];
    for s in stems {
        if let Ok(id) = melda::melda::DeltaId::from(s) {
            if let Ok(Some(d)) = m.get_delta(&id) {
                shape.push((id.index(), d.parents.as_ref().map(|p| p.len()).unwrap_or(0), d.verif_status().to_string()));
            }
        }
    }
    shape.sort();
    let heads: Vec<u32> = m.get_anchors().iter().map(|a| a.index()).collect();
    if std::env::var("VERIF_DEBUG_GRAPH").is_ok() {
        eprintln!("GRAPH heads {:?} shape {:?}", heads, shape);
    }
    sha(format!("{:?}|{:?}", heads, shape).as_bytes())[..16].to_string()
}
