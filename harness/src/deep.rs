//! Deeply nested content (C03's "nested containers", C04 exact read-back, C08 no abort): values and
//! commit metadata nested up to several hundred levels, below and above the default depth limit of
//! the JSON parser the library reads its own items back with.
use crate::engine::{open_with, CaseResult};
use crate::gen;
use crate::obs::{guard, observe, read_doc, trunc, Outcome};
use crate::rng::Rng;
use crate::store;
use serde_json::{json, Map, Value};

fn nest(r: &mut Rng, depth: usize, leaf: Value) -> Value {
    let mut v = leaf;
    let style = r.below(3);
    for i in 0..depth {
        let arr = match style {
            0 => false,
            1 => true,
            _ => r.chance(50),
        };
        v = if arr {
            if r.chance(20) {
                json!([i, v])
            } else {
                json!([v])
            }
        } else {
            let mut m = Map::new();
            m.insert(["a", "b", "k}", ""][r.below(4)].to_string(), v);
            if r.chance(15) {
                m.insert("s".into(), json!(i));
            }
            Value::Object(m)
        };
    }
    v
}

fn pick_depth(r: &mut Rng) -> usize {
    // exploration aid (not used by any registered job): VERIF_DEEP_DEPTH pins the depth
    if let Some(d) = std::env::var("VERIF_DEEP_DEPTH").ok().and_then(|v| v.parse::<usize>().ok()) {
        r.next();
        return d;
    }
    match r.below(4) {
        0 => 1 + r.below(100),
        1 => 118 + r.below(16),
        2 => 126 + r.below(4),
        _ => 130 + r.below(300),
    }
}

pub fn c03_deep_case(seed: u64, case: u64) -> CaseResult {
    let mut res = CaseResult::default();
    let mut r = Rng::derive(seed, case, 0xDEE9);
    let caps = (*r.pick(&[1u32, 2, 16]), *r.pick(&[1u32, 2, 16]));
    let (ad, _st) = store::mon_mem();
    let m = match open_with(&ad, caps) {
        Outcome::Ok(m) => m,
        o => {
            res.aborted = Some(o.describe());
            return res;
        }
    };
    let depth = pick_depth(&mut r);
    res.features.insert("depth".into(), depth as u64);
    let place = r.below(4);
    res.features.insert("place".into(), place as u64);
    let leaf = json!({"leaf": gen::STRS[r.below(gen::STRS.len())]});
    let deep = nest(&mut r, depth, leaf);
    // where the deep value sits: root object, element of a flattened array, object under a flattened key, commit metadata
    let mk = |v: &Value, tag: u64| -> Value {
        match place {
            0 => json!({"deep": v, "tag": tag, "items\u{266D}": [{"_id": "x", "n": tag}]}),
            1 => json!({"tag": tag, "items\u{266D}": [{"_id": "x", "n": tag}, {"_id": "y", "deep": v}]}),
            2 => json!({"tag": tag, "solo\u{266D}": {"_id": "s", "deep": v}}),
            _ => json!({"tag": tag, "items\u{266D}": [{"_id": "x", "n": tag}]}),
        }
    };
    let info = if place == 3 {
        let mut i = Map::new();
        i.insert("meta".into(), deep.clone());
        // hostile strings as metadata keys and values, extreme numbers
        for n in 0..r.below(6) {
            let k = gen::STRS[r.below(gen::STRS.len())].to_string();
            let v = match n % 3 {
                0 => json!(gen::STRS[r.below(gen::STRS.len())]),
                1 => json!([1e300, -0.0, 18446744073709551615u64, i64::MIN, 0.30000000000000004]),
                _ => json!({"k}": {"\"": [null, true]}}),
            };
            i.insert(k, v);
        }
        Some(i)
    } else {
        gen::rand_info(&mut r, 1)
    };
    let d1 = mk(&deep, 1);
    let exp1 = serde_json::to_string(&gen::expected_read(&d1)).unwrap();
    res.trace.push(format!("depth {} place {} caps {:?}", depth, place, caps));
    let up = guard(|| m.update(d1.as_object().unwrap().clone()));
    if !up.is_ok() {
        res.viol(if matches!(up, Outcome::Panic(_)) { "C08" } else { "C04" }, "deep-update-failed", format!("update of a document nested {} levels: {}", depth, up.describe()));
        return res;
    }
    let (got, ok) = read_doc(&m);
    if !ok || got != exp1 {
        res.viol(if got.starts_with("PANIC") { "C08" } else { "C04" }, "deep-read-differs-before-commit", format!("depth {}: {}", depth, trunc(&got, 300)));
        return res;
    }
    let c = guard(|| m.commit(info.clone()));
    let heads = match c {
        Outcome::Ok(Some(h)) => h,
        o => {
            res.viol(if matches!(o, Outcome::Panic(_)) { "C08" } else { "C03" }, "deep-commit-failed", format!("depth {}: {}", depth, o.describe()));
            return res;
        }
    };
    let (got, ok) = read_doc(&m);
    if !ok || got != exp1 {
        res.viol(if got.starts_with("PANIC") { "C08" } else { "C04" }, "deep-read-differs-after-commit", format!("depth {} place {}: {}", depth, place, trunc(&got, 300)));
    }
    let live = observe(&m);
    match open_with(&ad, caps) {
        Outcome::Ok(f) => {
            let o = observe(&f);
            if o.broken || !o.doc_ok {
                if o.broken || o.doc.starts_with("PANIC") {
                    res.viol("C08", "deep-reopened-replica-aborts", format!("depth {} place {}: the replica reopened after a successful commit answers {}", depth, place, trunc(&o.doc, 300)));
                }
                res.viol("C03", "deep-reopen-differs", format!("depth {} place {}: the replica reopened after a successful commit cannot show the committed document: {}", depth, place, trunc(&o.doc, 200)));
            } else if o.s_value(false) != live.s_value(false) || o.anchors != live.anchors || o.doc != exp1 {
                res.viol("C03", "deep-reopen-differs", format!("depth {} place {}: {}", depth, place, trunc(&live.diff(&o), 400)));
            }
            for h in &heads {
                let a = guard(|| m.get_delta(h)).is_ok();
                match guard(|| f.get_delta(h)) {
                    Outcome::Ok(Some(d)) => {
                        if d.info != info {
                            res.viol("C13", "deep-metadata-differs", format!("depth {}", depth));
                        }
                    }
                    o2 => {
                        if a {
                            res.viol("C03", "deep-commit-lost-on-reopen", format!("depth {} place {}: block {} is not applied by a fresh replica ({})", depth, place, h, trunc(&o2.describe(), 100)));
                        }
                    }
                }
            }
        }
        o => res.viol(if matches!(o, Outcome::Panic(_)) { "C08" } else { "C03" }, "deep-reopen-failed", format!("depth {}: {}", depth, o.describe())),
    }
    // a second version and a second replica
    let depth2 = pick_depth(&mut r);
    let deep2 = nest(&mut r, depth2, json!([1, "two", null]));
    let d2 = mk(&deep2, 2);
    let exp2 = serde_json::to_string(&gen::expected_read(&d2)).unwrap();
    let s2 = guard(|| {
        m.update(d2.as_object().unwrap().clone())?;
        m.commit(None)
    });
    if !s2.is_ok() {
        res.viol(if matches!(s2, Outcome::Panic(_)) { "C08" } else { "C03" }, "deep-second-commit-failed", s2.describe());
        return res;
    }
    let (pad, _) = store::mon_mem();
    if let Outcome::Ok(mut p) = open_with(&pad, caps) {
        let mr = guard(|| {
            p.meld(&m)?;
            p.refresh()
        });
        let (got, ok) = read_doc(&p);
        let want = if place == 3 { serde_json::to_string(&gen::expected_read(&mk(&deep2, 2))).unwrap() } else { exp2.clone() };
        if !mr.is_ok() || !ok || got != want {
            res.viol(if got.starts_with("PANIC") || matches!(mr, Outcome::Panic(_)) { "C08" } else { "C01" }, "deep-peer-differs", format!("meld+refresh {}: {}", mr.describe(), trunc(&got, 300)));
        }
    }
    res.count("deep_cases", 1);
    res.opkinds = format!("place{}", place);
    res
}

/// Fixed list of unusual but valid document shapes no random generator draws: update -> read (exact)
/// -> commit -> read -> reopen -> read, then a second version derived by reversing / dropping.
pub fn shapes_case() -> CaseResult {
    let mut res = CaseResult::default();
    let f = "\u{266D}";
    let shapes: Vec<Value> = vec![
        json!({format!("k{}", f): 5}),
        json!({format!("k{}", f): null}),
        json!({format!("k{}", f): "str"}),
        json!({format!("k{}", f): true}),
        json!({format!("k{}", f): []}),
        json!({format!("k{}", f): {}}),
        json!({"": 1, f: [{"_id": "a"}]}),
        json!({"n": 1e300, "m": -0.0, "one": 1.0, "big": 18446744073709551615u64, "neg": i64::MIN, "tiny": 5e-324}),
        json!({format!("{}{}", f, f): [{"_id": "a", f: [{"_id": "b"}]}]}),
        json!({"meta": {"_id": "zzz", "v": 1}}),
        json!({"list": [{"_id": "a", "v": 1}, {"_id": "a", "v": 2}]}),
        json!({"meta": {format!("inner{}", f): [{"_id": "a", "v": 1}, {"_id": "b"}]}}),
        json!({"meta": [{format!("inner{}", f): [{"_id": "a", "v": 1}]}, [{format!("x{}", f): {"_id": "q"}}]]}),
        json!({"!k": 1, "^k": 2, "\u{221A}": 3, "a\u{266D}b": [{"_id": "not-flattened"}]}),
        json!({"s": ["!x", "^y", "!!", "", "!", "^"], "t": "!^"}),
        json!({format!("items{}", f): [{"_id": "a", "r": "1-abc", "d": "2-d_1234567", "h": "e3b0c44298fc1c149afbf4c8996fb92427ae41e4649b934ca495991b7852b855"}]}),
        json!({format!("items{}", f): [{"_id": "e3b0c44298fc1c149afbf4c8996fb92427ae41e4649b934ca495991b7852b855"}, {"_id": "d"}, {"_id": "r"}, {"_id": "e"}, {"_id": "1f"}]}),
        json!({format!("a{}", f): [{"_id": "x", format!("a{}", f): [{"_id": "y", format!("a{}", f): [{"_id": "z"}]}]}], format!("b{}", f): {"_id": "w", format!("a{}", f): []}}),
        json!({"long": "x".repeat(200_000), format!("items{}", f): [{"_id": "a", "long": "\\\"}{".repeat(20_000)}]}),
        json!({format!("many{}", f): (0..3000).map(|i| json!({"_id": format!("o{}", i), "i": i})).collect::<Vec<_>>()}),
        // every hostile string as a KEY (root object, array element, nested plain object) and as a value
        {
            let mut o = Map::new();
            for (i, k) in gen::STRS.iter().enumerate() {
                if *k != "_id" && !k.ends_with('\u{266D}') && *k != "#" {
                    o.insert(k.to_string(), json!(gen::STRS[(i * 7 + 3) % gen::STRS.len()]));
                }
            }
            let mut root = o.clone();
            let mut el = o.clone();
            el.insert("_id".into(), json!("el"));
            el.insert("plain".into(), Value::Object(o.clone()));
            root.insert(format!("items{}", f), json!([Value::Object(el)]));
            Value::Object(root)
        },
    ];
    for (n, d) in shapes.iter().enumerate() {
        for caps in [(1u32, 1u32), (16, 16)] {
            let ad = store::plain_mem();
            let m = match open_with(&ad, caps) {
                Outcome::Ok(m) => m,
                _ => continue,
            };
            let ds: String = d.to_string().chars().take(120).collect();
            let mut step = |m: &melda::melda::Melda, doc: &Value, what: &str, res: &mut CaseResult| -> bool {
                let exp = serde_json::to_string(&gen::expected_read(doc)).unwrap();
                let (got, ok) = read_doc(m);
                if !ok || got != exp {
                    res.viol(if got.starts_with("PANIC") { "C08" } else { "C04" }, "shape-read-differs", format!("shape {} ({}) {}: read {} expected {}", n, ds, what, trunc(&got, 300), trunc(&exp, 300)));
                    return false;
                }
                true
            };
            let up = guard(|| m.update(d.as_object().unwrap().clone()));
            if !up.is_ok() {
                res.viol(if matches!(up, Outcome::Panic(_)) { "C08" } else { "C04" }, "shape-update-failed", format!("shape {} ({}): {}", n, ds, up.describe()));
                continue;
            }
            if !step(&m, d, "after update", &mut res) {
                continue;
            }
            let c = guard(|| m.commit(None));
            if !matches!(c, Outcome::Ok(Some(_))) {
                res.viol(if matches!(c, Outcome::Panic(_)) { "C08" } else { "C03" }, "shape-commit-failed", format!("shape {} ({}): {}", n, ds, c.describe()));
                continue;
            }
            step(&m, d, "after commit", &mut res);
            match open_with(&ad, caps) {
                Outcome::Ok(fr) => {
                    let exp = serde_json::to_string(&gen::expected_read(d)).unwrap();
                    let (got, ok) = read_doc(&fr);
                    if !ok || got != exp {
                        res.viol(if got.starts_with("PANIC") { "C08" } else { "C03" }, "shape-reopen-differs", format!("shape {} ({}): reopened replica reads {}", n, ds, trunc(&got, 300)));
                    }
                }
                o => res.viol(if matches!(o, Outcome::Panic(_)) { "C08" } else { "C03" }, "shape-reopen-failed", format!("shape {}: {}", n, o.describe())),
            }
            // the same document again changes nothing
            let again = guard(|| {
                m.update(d.as_object().unwrap().clone())?;
                m.commit(None)
            });
            if !matches!(again, Outcome::Ok(None)) {
                res.viol("C04", "shape-resubmission-not-idempotent", format!("shape {} ({}): second identical update + commit -> {}", n, ds, match &again { Outcome::Ok(Some(_)) => "Some (a commit)".to_string(), o => o.describe() }));
            }
            res.count("shapes", 1);
        }
    }
    res.features.insert("shapes".into(), shapes.len() as u64);
    res.opkinds = "shapes".into();
    res
}
