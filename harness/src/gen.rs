//! Generators: well-formed documents (in the sense of C04's quantifier), document
//! mutators, commit metadata.
use crate::rng::Rng;
use serde_json::{json, Map, Value};
use sha2::{Digest, Sha256};
use std::collections::BTreeSet;

pub const FLAT: &str = "\u{266D}";
pub const ROOT: &str = "\u{221A}";

pub fn sha(b: &[u8]) -> String {
    let mut h = Sha256::new();
    h.update(b);
    hex::encode(h.finalize())
}

#[derive(Clone, Debug)]
pub struct DocProfile {
    pub hostile_strings: bool,
    pub hostile_ids: bool,
    pub kind_change: bool,
    pub nested: bool,
    pub id_pool: usize,
    /// adds a bulk array so that packs exceed the 32 KiB blocks of the compression wrappers
    pub big: bool,
    /// some array elements are pure character objects {"_id": .., "#": "<hex code>"} (the library stores
    /// nothing for them: their digest is the code itself)
    pub charcode: bool,
}
impl Default for DocProfile {
    fn default() -> Self {
        DocProfile { hostile_strings: true, hostile_ids: true, kind_change: true, nested: true, id_pool: 10, big: false, charcode: false }
    }
}

pub const STRS: &[&str] = &[
    "plain",
    "a}b",
    "{",
    "}{",
    "q\"uote",
    "back\\slash",
    "h\u{e9}llo \u{266D} \u{221A}",
    "!bang",
    "^caret",
    "",
    "{\"a\":1}",
    "\\\"}",
    "tab\there",
    "\u{1F600}",
    "\u{0001}\u{001f}ctl",
    "}}}}",
    "\"",
    "\\",
    "[{",
    "line\nbreak",
    "\u{10FFFF}",
];
const PLAIN_STRS: &[&str] = &["plain", "alpha", "beta", "gamma", "x", "hello world", "v1", "v2"];
const IDS: &[&str] = &["a", "b", "c", "d", "e", "f", "g", "h", "i", "j", "k", "l", "m", "n", "o", "p"];
const HOSTILE_IDS: &[&str] = &["@x", "k\u{266D}", "\u{221A}2", "!bang", "", "1-abc", "a b", "\u{e9}\u{1F600}", "d_", "_id"];

pub fn rand_scalar(r: &mut Rng, p: &DocProfile) -> Value {
    match r.below(14) {
        0 => json!(r.below(1000) as i64 - 500),
        1 => json!((r.below(100000) as f64) / 64.0 - 300.0),
        2 => json!(true),
        3 => json!(null),
        4 => json!(1e300),
        5 => json!(u64::MAX),
        6 => json!(-0.0),
        7 => json!(0.1 + 0.2),
        8 => json!(5e-324),
        9 => json!(i64::MIN),
        10 => json!(false),
        _ => {
            if p.hostile_strings {
                json!(*r.pick(STRS))
            } else {
                json!(*r.pick(PLAIN_STRS))
            }
        }
    }
}

pub fn rand_value(r: &mut Rng, p: &DocProfile, depth: usize) -> Value {
    if depth == 0 || r.chance(55) {
        return rand_scalar(r, p);
    }
    if r.chance(50) {
        Value::Array((0..r.below(4)).map(|_| rand_value(r, p, depth - 1)).collect())
    } else {
        let mut m = Map::new();
        for i in 0..r.below(4) {
            let k = match r.below(8) {
                0 => "_id".to_string(), // nested plain object that happens to carry _id
                1 => format!("n{}{}", i, FLAT), // flattened-looking key inside a plain (untracked) object
                2 if p.hostile_strings => r.pick(STRS).to_string(),
                _ => format!("n{}", i),
            };
            if k == "#" {
                continue;
            }
            m.insert(k, rand_value(r, p, depth - 1));
        }
        Value::Object(m)
    }
}

fn fresh_id(r: &mut Rng, p: &DocProfile, used: &mut BTreeSet<String>, allow_bang: bool) -> Option<String> {
    for _ in 0..6 {
        let id = if p.hostile_ids && r.chance(12) {
            r.pick(HOSTILE_IDS).to_string()
        } else {
            IDS[r.below(p.id_pool.min(IDS.len()))].to_string()
        };
        if id.starts_with('^') || id == ROOT {
            continue;
        }
        if !allow_bang && id.starts_with('!') {
            continue;
        }
        if used.insert(id.clone()) {
            return Some(id);
        }
    }
    None
}

pub fn rand_elem(r: &mut Rng, p: &DocProfile, id: &str, used: &mut BTreeSet<String>, depth: usize) -> Value {
    let mut m = Map::new();
    m.insert("_id".into(), json!(id));
    if p.charcode && r.chance(30) {
        let codes = ["68", "1f600", "e9", "0", "7fffffff", "a"];
        m.insert("#".into(), json!(*r.pick(&codes)));
        return Value::Object(m);
    }
    for i in 0..r.below(3) {
        m.insert(format!("f{}", i), rand_value(r, p, 2));
    }
    if p.nested && depth > 0 && r.chance(18) {
        m.insert(format!("sub{}", FLAT), rand_arr(r, p, used, depth - 1, 2));
    }
    if p.nested && r.chance(10) {
        // single tracked object without identifier (path-derived id) or a flattened string
        if r.chance(60) {
            m.insert(format!("solo{}", FLAT), json!({"sv": rand_scalar(r, p)}));
            if r.chance(50) {
                // a sibling slot, also without identifier: the two must get different path-derived ids
                m.insert(format!("duo{}", FLAT), json!({"sv": rand_scalar(r, p), "t": "duo"}));
            }
        } else {
            m.insert(format!("solo{}", FLAT), rand_scalar(r, p));
        }
    }
    Value::Object(m)
}

pub fn rand_arr(r: &mut Rng, p: &DocProfile, used: &mut BTreeSet<String>, depth: usize, maxlen: usize) -> Value {
    let mut v = vec![];
    for _ in 0..r.below(maxlen + 1) {
        if let Some(id) = fresh_id(r, p, used, true) {
            v.push(rand_elem(r, p, &id, used, depth));
        }
    }
    Value::Array(v)
}

fn rand_meta(r: &mut Rng, p: &DocProfile, used: &mut BTreeSet<String>) -> Option<Value> {
    match r.below(7) {
        0 => None,
        1 => Some(rand_scalar(r, p)),
        2 => Some(json!(*r.pick(STRS))),
        3 => {
            // tracked object with id (never '!'-leading here: finding F10 has a dedicated case)
            let id = fresh_id(r, p, used, false)?;
            Some(json!({"_id": id, "v": rand_scalar(r, p)}))
        }
        4 => Some(json!({"v": rand_value(r, p, 2)})),
        5 => Some(json!({})),
        _ => Some(rand_arr(r, p, used, 0, 3)),
    }
}

pub fn rand_doc(r: &mut Rng, p: &DocProfile) -> Value {
    let mut used = BTreeSet::new();
    let mut m = Map::new();
    m.insert("title".into(), rand_scalar(r, p));
    if r.chance(35) {
        m.insert("blob".into(), rand_value(r, p, 3));
    }
    if r.chance(90) {
        let maxlen = if p.id_pool > 12 { 14 } else { 5 };
        m.insert(format!("items{}", FLAT), rand_arr(r, p, &mut used, 1, maxlen));
    }
    if r.chance(50) {
        m.insert(format!("tags{}", FLAT), rand_arr(r, p, &mut used, 1, 3));
    }
    if p.kind_change && r.chance(40) {
        if let Some(v) = rand_meta(r, p, &mut used) {
            m.insert(format!("meta{}", FLAT), v);
        }
    }
    if p.big {
        let n = 120 + r.below(200);
        let bulk: Vec<Value> = (0..n)
            .map(|i| {
                let mut t = String::new();
                while t.len() < 150 + (i % 7) * 40 {
                    t.push_str(&format!("{:x} \"}}{{ ", r.next()));
                }
                json!({"_id": format!("k{:03}", i), "t": t, "n": i})
            })
            .collect();
        m.insert(format!("bulk{}", FLAT), Value::Array(bulk));
    }
    if p.nested && r.chance(15) {
        m.insert(format!("aux{}", FLAT), json!({"av": rand_scalar(r, p)}));
        if r.chance(50) {
            m.insert(format!("aux2{}", FLAT), json!({"av": rand_scalar(r, p), "n": 2}));
        }
    }
    Value::Object(m)
}

pub fn collect_ids(v: &Value, out: &mut BTreeSet<String>) {
    match v {
        Value::Object(o) => {
            if let Some(Value::String(s)) = o.get("_id") {
                out.insert(s.clone());
            }
            for (_, x) in o {
                collect_ids(x, out);
            }
        }
        Value::Array(a) => {
            for x in a {
                collect_ids(x, out);
            }
        }
        _ => {}
    }
}

#[derive(Clone, Debug)]
pub enum Seg {
    K(String),
    I(usize),
}
fn get_mut<'a>(v: &'a mut Value, path: &[Seg]) -> Option<&'a mut Value> {
    let mut cur = v;
    for s in path {
        cur = match s {
            Seg::K(k) => cur.as_object_mut()?.get_mut(k)?,
            Seg::I(i) => cur.as_array_mut()?.get_mut(*i)?,
        };
    }
    Some(cur)
}
/// Paths of all flattened arrays reachable through tracked positions
fn tracked_arrays(v: &Value, path: &mut Vec<Seg>, out: &mut Vec<Vec<Seg>>) {
    if let Value::Object(o) = v {
        for (k, x) in o {
            if k.ends_with(FLAT) {
                path.push(Seg::K(k.clone()));
                match x {
                    Value::Array(a) => {
                        out.push(path.clone());
                        for (i, e) in a.iter().enumerate() {
                            path.push(Seg::I(i));
                            tracked_arrays(e, path, out);
                            path.pop();
                        }
                    }
                    Value::Object(_) => tracked_arrays(x, path, out),
                    _ => {}
                }
                path.pop();
            }
        }
    }
}

/// Derive the next document from a previous one (root `_id`, if any, is dropped).
pub fn mutate_doc(r: &mut Rng, p: &DocProfile, prev: &Value) -> Value {
    if !prev.is_object() || r.chance(6) {
        return rand_doc(r, p);
    }
    let mut d = prev.clone();
    d.as_object_mut().unwrap().remove("_id");
    let mut used = BTreeSet::new();
    collect_ids(&d, &mut used);
    let nedits = 1 + r.below(3);
    for _ in 0..nedits {
        let mut arrays = vec![];
        tracked_arrays(&d, &mut vec![], &mut arrays);
        let choice = r.below(14);
        match choice {
            0..=8 if !arrays.is_empty() => {
                let ap = r.pick(&arrays).clone();
                match choice {
                    0 | 1 => {
                        // insert
                        if let Some(id) = fresh_id(r, p, &mut used, true) {
                            let e = rand_elem(r, p, &id, &mut used, 0);
                            if let Some(Value::Array(a)) = get_mut(&mut d, &ap) {
                                let pos = r.below(a.len() + 1);
                                a.insert(pos, e);
                            }
                        }
                    }
                    2 => {
                        if let Some(Value::Array(a)) = get_mut(&mut d, &ap) {
                            if !a.is_empty() {
                                let pos = r.below(a.len());
                                a.remove(pos);
                            }
                        }
                    }
                    3 => {
                        // remove first
                        if let Some(Value::Array(a)) = get_mut(&mut d, &ap) {
                            if !a.is_empty() {
                                a.remove(0);
                            }
                        }
                    }
                    4 => {
                        if let Some(Value::Array(a)) = get_mut(&mut d, &ap) {
                            if a.len() > 1 {
                                let pos = r.below(a.len());
                                let x = a.remove(pos);
                                let q = r.below(a.len() + 1);
                                a.insert(q, x);
                            }
                        }
                    }
                    5 => {
                        // move between arrays
                        let bp = r.pick(&arrays).clone();
                        let mut taken = None;
                        if let Some(Value::Array(a)) = get_mut(&mut d, &ap) {
                            if !a.is_empty() {
                                let pos = r.below(a.len());
                                taken = Some(a.remove(pos));
                            }
                        }
                        if let Some(x) = taken {
                            // the destination path may have been invalidated by the removal
                            match get_mut(&mut d, &bp) {
                                Some(Value::Array(b)) => {
                                    let q = r.below(b.len() + 1);
                                    b.insert(q, x);
                                }
                                _ => {
                                    if let Some(Value::Array(a)) = get_mut(&mut d, &ap) {
                                        a.push(x);
                                    }
                                }
                            }
                        }
                    }
                    6 => {
                        // modify an element
                        if let Some(Value::Array(a)) = get_mut(&mut d, &ap) {
                            if !a.is_empty() {
                                let pos = r.below(a.len());
                                if let Some(ob) = a[pos].as_object_mut() {
                                    if ob.contains_key("#") {
                                        // a character object stays pure: its digest is the code alone
                                        continue;
                                    }
                                    let k = format!("f{}", r.below(3));
                                    if r.chance(20) {
                                        ob.remove(&k);
                                    } else {
                                        ob.insert(k, rand_value(r, p, 2));
                                    }
                                }
                            }
                        }
                    }
                    7 => {
                        // empty / reverse / rotate
                        if let Some(Value::Array(a)) = get_mut(&mut d, &ap) {
                            match r.below(3) {
                                0 => a.clear(),
                                1 => a.reverse(),
                                _ => {
                                    if a.len() > 1 {
                                        let x = a.remove(0);
                                        a.push(x);
                                    }
                                }
                            }
                        }
                    }
                    _ => {
                        // refill
                        let extra = rand_arr(r, p, &mut used, 0, 3);
                        if let Some(Value::Array(a)) = get_mut(&mut d, &ap) {
                            a.extend(extra.as_array().unwrap().iter().cloned());
                        }
                    }
                }
            }
            9 => {
                let o = d.as_object_mut().unwrap();
                o.insert("title".into(), rand_scalar(r, p));
                if r.chance(30) {
                    if r.chance(50) {
                        o.remove("blob");
                    } else {
                        o.insert("blob".into(), rand_value(r, p, 3));
                    }
                }
            }
            10 | 11 if p.kind_change => {
                // flattened key appears / disappears / changes kind
                let key = match r.below(3) {
                    0 => format!("items{}", FLAT),
                    1 => format!("tags{}", FLAT),
                    _ => format!("meta{}", FLAT),
                };
                let o = d.as_object_mut().unwrap();
                let had = o.remove(&key);
                // ids inside the removed value become free again
                let mut now = BTreeSet::new();
                collect_ids(&Value::Object(o.clone()), &mut now);
                used = now;
                let newv = if key.starts_with("meta") {
                    rand_meta(r, p, &mut used)
                } else if had.is_some() {
                    if r.chance(50) {
                        None
                    } else {
                        Some(json!([]))
                    }
                } else {
                    Some(rand_arr(r, p, &mut used, 1, 3))
                };
                if let Some(v) = newv {
                    d.as_object_mut().unwrap().insert(key, v);
                }
            }
            _ => {
                let o = d.as_object_mut().unwrap();
                o.insert("title".into(), rand_scalar(r, p));
            }
        }
    }
    d
}

/// Commit metadata generator (C11 / C13)
pub fn rand_info(r: &mut Rng, tag: u64) -> Option<Map<String, Value>> {
    let v = match r.below(8) {
        0 => return None,
        1 => json!({}),
        2 => json!({"who": tag, "f": [1.5, 1e300, -0.0, 5e-324, 0.30000000000000004], "big": u64::MAX,
                    "s": "x}{\" \u{0007} h\u{e9} \u{1F600}", "n": {"z": {}, "a": [null, true]}, "e": {}}),
        3 => {
            let mut m = Map::new();
            for i in 0..300 {
                m.insert(format!("k{:03}", i), json!(i));
            }
            m.insert("tag".into(), json!(tag));
            Value::Object(m)
        }
        4 => json!({"author": "Some user", "date": "2022-05-23 13:47:00CET", "tag": tag}),
        5 => json!({"p": ["not", "parents"], "k": ["x"], "c": [[1, 2]], "i": {"i": 1}, "tag": tag}),
        6 => json!({"esc": "\\u0000 \" \\ / \u{0008}\u{000c}\n\r\t", "neg": i64::MIN, "tag": tag, "min": -1e-300}),
        _ => {
            let p = DocProfile::default();
            let mut m = Map::new();
            m.insert("tag".into(), json!(tag));
            m.insert("v".into(), rand_value(r, &p, 3));
            Value::Object(m)
        }
    };
    Some(v.as_object().unwrap().clone())
}

/// The document `read` must return for submitted `doc`: identifier added to every
/// tracked object (root, object under a flattened key, element of a flattened array).
pub fn expected_read(doc: &Value) -> Value {
    fn tracked(v: &Value, path: &[String]) -> Value {
        let o = v.as_object().unwrap();
        let uuid = match o.get("_id") {
            Some(Value::String(s)) => s.clone(),
            _ => {
                if path.is_empty() {
                    ROOT.to_string()
                } else {
                    sha(path.join("").as_bytes())
                }
            }
        };
        let mut fpath = path.to_vec();
        fpath.push(uuid.clone());
        let mut out = Map::new();
        for (k, x) in o {
            if k == "_id" {
                continue;
            }
            if k.ends_with(FLAT) {
                let mut fp = fpath.clone();
                fp.push(k.clone());
                out.insert(k.clone(), flat(x, &fp));
            } else {
                out.insert(k.clone(), x.clone());
            }
        }
        out.insert("_id".into(), Value::String(uuid));
        Value::Object(out)
    }
    fn flat(v: &Value, path: &[String]) -> Value {
        match v {
            Value::Object(_) => tracked(v, path),
            Value::Array(a) => Value::Array(a.iter().map(|e| flat(e, path)).collect()),
            _ => v.clone(),
        }
    }
    tracked(doc, &[])
}

/// All tracked objects of a (read-back or expected) document: id -> content with the
/// values of flattened keys replaced by a shape marker (single object: its id; array: "[]").
pub fn tracked_objects(doc: &Value) -> Vec<(String, Value)> {
    fn walk(v: &Value, out: &mut Vec<(String, Value)>) {
        if let Value::Object(o) = v {
            let id = o.get("_id").and_then(|x| x.as_str()).unwrap_or("?").to_string();
            let mut content = Map::new();
            for (k, x) in o {
                if k.ends_with(FLAT) {
                    match x {
                        Value::Object(_) => {
                            // which object sits in a single-object slot is membership: while an
                            // array is in conflict an object claimed by a pending array version
                            // is shown there and the slot reads null
                            content.insert(k.clone(), json!("slot"));
                            walk(x, out);
                        }
                        Value::Null => {
                            content.insert(k.clone(), json!("slot"));
                        }
                        Value::Array(a) => {
                            content.insert(k.clone(), json!("[]"));
                            for e in a {
                                walk(e, out);
                            }
                        }
                        _ => {
                            content.insert(k.clone(), x.clone());
                        }
                    }
                } else {
                    content.insert(k.clone(), x.clone());
                }
            }
            out.push((id, Value::Object(content)));
        }
    }
    let mut out = vec![];
    walk(doc, &mut out);
    out.sort_by(|a, b| a.0.cmp(&b.0).then_with(|| a.1.to_string().cmp(&b.1.to_string())));
    out
}
