//! meldamon: runtime monitors for libmelda.  `meldamon <mode> key=value ...`
//! Every mode prints one JSON line per case on stdout and a final {"t":"done"} line.
mod arrays;
mod backends;
mod deep;
mod engine;
mod faults;
mod gen;
mod mt;
mod obs;
mod refmodel;
mod rng;
mod routes;
mod store;
mod unit;

use engine::CaseResult;
use serde_json::json;
use std::collections::BTreeMap;

pub struct Args {
    pub mode: String,
    pub kv: BTreeMap<String, String>,
}
impl Args {
    pub fn u64(&self, k: &str, d: u64) -> u64 {
        self.kv.get(k).and_then(|v| v.parse().ok()).unwrap_or(d)
    }
    pub fn str(&self, k: &str, d: &str) -> String {
        self.kv.get(k).cloned().unwrap_or_else(|| d.to_string())
    }
    pub fn flag(&self, k: &str) -> bool {
        self.kv.get(k).map(|v| v != "0").unwrap_or(false)
    }
}

fn parse_args() -> Args {
    let mut it = std::env::args().skip(1);
    let mode = it.next().unwrap_or_else(|| "help".into());
    let mut kv = BTreeMap::new();
    for a in it {
        if let Some((k, v)) = a.split_once('=') {
            kv.insert(k.to_string(), v.to_string());
        } else {
            kv.insert(a, "1".into());
        }
    }
    Args { mode, kv }
}

struct Emit {
    trace: bool,
    samples: u64,
    shown: u64,
}
impl Emit {
    fn case(&mut self, case: u64, res: &CaseResult, nt: bool) {
        let show = self.trace || (nt && self.shown < self.samples);
        if show {
            self.shown += 1;
        }
        println!("{}", res.to_json(case, nt, show));
    }
}

fn profile_from(a: &Args, default: &str) -> engine::Profile {
    let mut p = engine::profile(&a.str("profile", default));
    if let Some(b) = a.kv.get("backend") {
        p.backend = b.clone();
    }
    if let Some(t) = a.kv.get("tmp") {
        p.tmp = t.clone();
    }
    if let Some(s) = a.kv.get("steps") {
        if let Ok(n) = s.parse::<usize>() {
            p.steps = (n, n);
        }
    }
    if let Some(n) = a.kv.get("reps").and_then(|v| v.parse::<usize>().ok()) {
        p.nrep = (n, n);
    }
    p.cap_shift = a.u64("capshift", 0) as usize;
    p.perm_salt = a.u64("permsalt", 0);
    if a.flag("nofinal") {
        p.final_sync = false;
    }
    if a.flag("plaincontent") {
        p.doc.hostile_strings = false;
        p.doc.hostile_ids = false;
    }
    p
}

fn main() {
    obs::install_panic_hook();
    let a = parse_args();
    if let Some(p) = a.kv.get("progress") {
        *engine::PROGRESS.lock().unwrap() = std::fs::OpenOptions::new().create(true).append(true).open(p).ok();
    }
    let delay = a.u64("delay", 0);
    if delay != 0 {
        melda::verif::set_delay_seed(delay);
    }
    let seed = a.u64("seed", 1);
    let from = a.u64("from", 0);
    let to = a.u64("to", 10);
    let tier = a.str("tier", "quick");
    let thorough = tier == "thorough";
    let mut em = Emit { trace: a.flag("trace"), samples: a.u64("samples", 0), shown: 0 };
    let mut done = json!({"t": "done"});
    let prog = |case: u64, what: &str| engine::progress(&format!("CALL case={} step=0 {}", case, what));
    match a.mode.as_str() {
        "engine" => {
            let prof = profile_from(&a, "general");
            let rule = a.str("rule", "any");
            if a.flag("hooktrace") {
                melda::verif::set_trace(true);
            }
            for case in from..to {
                let w = engine::run_case(seed, case, &prof);
                let nt = engine::engine_nontrivial(&w.res, &rule);
                if a.flag("hooktrace") {
                    // distinct interleavings: order in which the parallel sections reached their objects
                    let ev = melda::verif::take_trace();
                    let order: Vec<String> = ev.iter().map(|(p, k, t)| format!("{}{}@{:?}", p, k, t)).collect();
                    let mut j = w.res.to_json(case, nt, em.trace || a.flag("fulldigests"));
                    j["interleaving"] = json!(gen::sha(order.join(",").as_bytes())[..16].to_string());
                    j["hook_events"] = json!(ev.len());
                    let workers: std::collections::BTreeSet<Option<usize>> = ev.iter().map(|e| e.2).collect();
                    j["workers_seen"] = json!(workers.len());
                    println!("{}", j);
                } else if a.flag("fulldigests") {
                    println!("{}", w.res.to_json(case, nt, true));
                } else {
                    em.case(case, &w.res, nt);
                }
            }
        }
        "c04f10" => {
            // dedicated case for known finding F10: a '!'-leading identifier under a single-object flattened key
            let mut res = CaseResult::default();
            let shapes = [
                json!({"k\u{266D}": {"_id": "!x", "v": 1}}),
                json!({"k\u{266D}": {"_id": "!", "v": "s"}}),
                json!({"items\u{266D}": [{"_id": "a", "solo\u{266D}": {"_id": "!deep", "w": true}}]}),
            ];
            for (n, d) in shapes.iter().enumerate() {
                let ad = store::plain_mem();
                engine::set_caps((16, 16));
                let m = melda::melda::Melda::new(ad).unwrap();
                let up = obs::guard(|| m.update(d.as_object().unwrap().clone()));
                let (got, ok) = obs::read_doc(&m);
                let exp = serde_json::to_string(&gen::expected_read(d)).unwrap();
                res.trace.push(format!("update({}) -> read {}", d, got));
                if !up.is_ok() || !ok || got != exp {
                    res.viol("C04", "bang-id-under-flattened-object-key", format!("shape {}: update({}) reads back {} (expected {})", n, d, got, exp));
                }
                res.count("c04_f10_shapes", 1);
            }
            // probe: parent identifier / key pairs whose descriptor identifiers collide ("^" + id + "@" + key)
            {
                let d = json!({"items\u{266D}": [
                    {"_id": "a", "b@c\u{266D}": [{"_id": "x", "v": 1}]},
                    {"_id": "a@b", "c\u{266D}": [{"_id": "y", "v": 2}]}
                ]});
                let ad = store::plain_mem();
                let m = melda::melda::Melda::new(ad).unwrap();
                let up = obs::guard(|| m.update(d.as_object().unwrap().clone()));
                let (got, ok) = obs::read_doc(&m);
                let exp = serde_json::to_string(&gen::expected_read(&d)).unwrap();
                res.trace.push(format!("update({}) -> read {}", d, got));
                if !up.is_ok() || !ok || got != exp {
                    res.viol("C04", "descriptor-identifier-collision-via-at-sign", format!("update({}) reads back {} (expected {})", d, got, exp));
                }
                res.count("c04_f10_shapes", 1);
            }
            // probe: path-derived identifiers are the hash of the path joined WITHOUT separators
            {
                let d = json!({"items\u{266D}": [
                    {"_id": "a", "xy\u{266D}": {"v": 1}},
                    {"_id": "ax", "y\u{266D}": {"v": 2}}
                ]});
                let ad = store::plain_mem();
                let m = melda::melda::Melda::new(ad).unwrap();
                let up = obs::guard(|| m.update(d.as_object().unwrap().clone()));
                let (got, ok) = obs::read_doc(&m);
                // the reference assigns the same colliding identifier; compare contents without the generated ids
                fn strip(v: &serde_json::Value) -> serde_json::Value {
                    match v {
                        serde_json::Value::Object(o) => serde_json::Value::Object(o.iter().filter(|(k, x)| !(k.as_str() == "_id" && x.as_str().map(|s| s.len() == 64).unwrap_or(false))).map(|(k, x)| (k.clone(), strip(x))).collect()),
                        serde_json::Value::Array(a) => serde_json::Value::Array(a.iter().map(strip).collect()),
                        _ => v.clone(),
                    }
                }
                let exp = strip(&gen::expected_read(&d)).to_string();
                let gots = serde_json::from_str::<serde_json::Value>(&got).map(|v| strip(&v).to_string()).unwrap_or_default();
                res.trace.push(format!("update({}) -> read {}", d, got));
                if !up.is_ok() || !ok || gots != exp {
                    res.viol("C04", "generated-identifier-collision-unseparated-path", format!("update({}) reads back {} (expected, ids aside, {})", d, got, exp));
                }
                res.count("c04_f10_shapes", 1);
            }
            res.opkinds = "f10".into();
            em.case(0, &res, true);
        }
        "c01" => {
            let prof = profile_from(&a, "conflict");
            for case in from..to {
                prog(case, "c01");
                let res = routes::c01_case(seed, case, &prof);
                let nt = routes::c01_nontrivial(&res);
                em.case(case, &res, nt);
            }
        }
        "c02" => {
            let prof = profile_from(&a, "conflict");
            let nperm = a.u64("perms", if thorough { 8 } else { 4 }) as usize;
            for case in from..to {
                prog(case, "c02");
                let res = routes::c02_case(seed, case, &prof, nperm);
                let nt = routes::c02_nontrivial(&res);
                em.case(case, &res, nt);
            }
        }
        "c05unit" => {
            for case in from..to {
                let res = unit::c05_case(seed, case);
                let nt = unit::c05_nontrivial(&res);
                em.case(case, &res, nt);
            }
        }
        "c06unit" => {
            let (k, l) = if thorough { (6, 6) } else { (5, 5) };
            let k = a.u64("k", k) as usize;
            let l = a.u64("len", l) as usize;
            let seqs = unit::dupfree_sequences(k, l);
            for case in from..to.min(seqs.len() as u64) {
                let res = unit::c06_case(seed, case, k, l, &seqs);
                em.case(case, &res, res.feat("len_m") >= 2);
            }
            done["exhaustive"] = json!(true);
            done["space"] = json!(format!("all ordered pairs of duplicate-free sequences over {} letters up to length {}: {} x {}", k, l, seqs.len(), seqs.len()));
        }
        "c16unit" => {
            let (k, l) = if thorough { (4, 6) } else { (3, 5) };
            let k = a.u64("k", k) as usize;
            let l = a.u64("len", l) as usize;
            let seqs = unit::sequences_with_rep(k, l);
            for case in from..to.min(seqs.len() as u64) {
                let res = unit::c16_case(seed, case, &seqs);
                em.case(case, &res, res.feat("len_a") >= 2);
            }
            done["exhaustive"] = json!(true);
            done["space"] = json!(format!("all ordered pairs of sequences (repetition allowed) over {} letters up to length {}: {} x {}", k, l, seqs.len(), seqs.len()));
        }
        "c19unit" => {
            for case in from..to {
                let res = unit::c19_case(seed, case);
                let nt = res.feat("max_index") >= 10 && res.feat("markers") >= 1;
                em.case(case, &res, nt);
            }
        }
        "c19twins" => {
            for case in from..to {
                prog(case, "c19twins");
                let res = routes::c19_twins_case(seed, case);
                let nt = routes::c19_twins_nontrivial(&res);
                em.case(case, &res, nt);
            }
        }
        "c02cache" => {
            for case in from..to {
                prog(case, "c02cache");
                let res = routes::c02_cache_case(seed, case);
                let nt = res.feat("variant") <= 1;
                em.case(case, &res, nt);
            }
        }
        "c04shapes" => {
            let res = deep::shapes_case();
            em.case(0, &res, true);
        }
        "c03deep" => {
            for case in from..to {
                prog(case, "c03deep");
                let res = deep::c03_deep_case(seed, case);
                let nt = res.feat("depth") >= 118;
                em.case(case, &res, nt);
            }
        }
        "c08mt" => {
            for case in from..to {
                prog(case, "c08mt");
                let res = mt::c08mt_case(seed, case, thorough);
                let nt = res.feat("overlapped") >= 4;
                em.case(case, &res, nt);
            }
        }
        "c13redo" => {
            for case in from..to {
                prog(case, "c13redo");
                let res = routes::c13_redo_case(seed, case);
                let nt = res.feat("reproduced_existing_block") >= 1;
                em.case(case, &res, nt);
            }
        }
        "c14mesh" => {
            for case in from..to {
                prog(case, "c14mesh");
                let res = routes::c14_mesh_case(seed, case);
                let nt = res.feat("max_parents") >= 3;
                em.case(case, &res, nt);
            }
        }
        "c06sys" => {
            for case in from..to {
                prog(case, "c06sys");
                let res = arrays::c06_case(seed, case);
                let nt = arrays::c06_nontrivial(&res);
                em.case(case, &res, nt);
            }
        }
        "c07" => {
            let prof = profile_from(&a, "conflict");
            for case in from..to {
                prog(case, "c07");
                let res = arrays::c07_case(seed, case, &prof);
                let nt = arrays::c07_nontrivial(&res);
                em.case(case, &res, nt);
            }
        }
        "c16chain" => {
            let steps = a.u64("chain", if thorough { 120 } else { 60 }) as usize;
            for case in from..to {
                prog(case, "c16chain");
                let res = arrays::c16_case(seed, case, steps);
                let nt = arrays::c16_nontrivial(&res);
                em.case(case, &res, nt);
            }
        }
        "c09" => {
            for case in from..to {
                prog(case, "c09");
                let res = faults::c09_case(seed, case);
                let nt = faults::c09_nontrivial(&res);
                em.case(case, &res, nt);
            }
            done["exhaustive"] = json!(true);
            done["space"] = json!("per sampled history: a crash point before every storage write, every single write-failure position, every pair of consecutive positions and, for writes of a commit, every triple (the retry fails twice)");
        }
        "c10" => {
            let mut prof = profile_from(&a, "conflict");
            if a.kv.get("steps").is_none() {
                prof.steps = (10, 22);
            }
            for case in from..to {
                prog(case, "c10");
                let res = faults::c10_case(seed, case, &prof, a.flag("dense"));
                let nt = faults::c10_nontrivial(&res);
                em.case(case, &res, nt);
            }
        }
        "c17contract" => {
            let tmp = a.str("tmp", &std::env::temp_dir().to_string_lossy());
            let nops = a.u64("ops", 400) as usize;
            let only = a.kv.get("backend").cloned();
            for case in from..to {
                let kind = match &only {
                    Some(k) => k.clone(),
                    None => backends::BACKENDS[(case as usize) % backends::BACKENDS.len()].to_string(),
                };
                prog(case, &format!("c17contract {}", kind));
                let res = backends::contract_case(seed, case, &kind, &tmp, nops);
                let nt = backends::contract_nontrivial(&res);
                em.case(case, &res, nt);
            }
        }
        _ => {
            eprintln!("unknown mode {}", a.mode);
            std::process::exit(2);
        }
    }
    println!("{}", done);
}
