//! meldamon: runtime monitors for libmelda.  `meldamon <mode> key=value ...`
//! Every mode prints one JSON line per case on stdout and a final {"t":"done"} line.
mod engine;
mod gen;
mod obs;
mod refmodel;
mod rng;
mod store;

use serde_json::json;
use std::collections::BTreeMap;

pub struct Args {
    pub mode: String,
    pub kv: BTreeMap<String, String>,
}
impl Args {
    pub fn u64(&self, k: &str, d: u64) -> u64 {
        self.kv.get(k).and_then(|v| v.parse().ok()).unwrap_or(d)
    }
    pub fn str(&self, k: &str, d: &str) -> String {
        self.kv.get(k).cloned().unwrap_or_else(|| d.to_string())
    }
    pub fn flag(&self, k: &str) -> bool {
        self.kv.get(k).map(|v| v != "0").unwrap_or(false)
    }
}

fn parse_args() -> Args {
    let mut it = std::env::args().skip(1);
    let mode = it.next().unwrap_or_else(|| "help".into());
    let mut kv = BTreeMap::new();
    for a in it {
        if let Some((k, v)) = a.split_once('=') {
            kv.insert(k.to_string(), v.to_string());
        } else {
            kv.insert(a, "1".into());
        }
    }
    Args { mode, kv }
}

fn mode_engine(a: &Args) {
    let seed = a.u64("seed", 1);
    let from = a.u64("from", 0);
    let to = a.u64("to", 10);
    let prof = engine::profile(&a.str("profile", "general"));
    let rule = a.str("rule", "any");
    let trace = a.flag("trace");
    for case in from..to {
        let w = engine::run_case(seed, case, &prof);
        let nt = engine::engine_nontrivial(&w.res, &rule);
        println!("{}", w.res.to_json(case, nt, trace));
    }
}

fn main() {
    obs::install_panic_hook();
    let a = parse_args();
    if let Some(p) = a.kv.get("progress") {
        *engine::PROGRESS.lock().unwrap() = std::fs::OpenOptions::new().create(true).append(true).open(p).ok();
    }
    let delay = a.u64("delay", 0);
    if delay != 0 {
        melda::verif::set_delay_seed(delay);
    }
    match a.mode.as_str() {
        "engine" => mode_engine(&a),
        _ => {
            eprintln!("modes: engine");
            std::process::exit(2);
        }
    }
    println!("{}", json!({"t": "done"}));
}
