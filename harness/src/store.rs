//! Storage instrumentation: an `Adapter` wrapper that logs, permutes listings, injects
//! write failures and takes crash snapshots; plus a raw mutable store for live corruption.
use crate::gen::sha;
use crate::refmodel::Files;
use crate::rng::Rng;
use melda::adapter::Adapter;
use melda::memoryadapter::MemoryAdapter;
use std::any::Any;
use std::collections::BTreeMap;
use std::sync::{Arc, Mutex, RwLock};

pub type Ad = Arc<RwLock<Box<dyn Adapter>>>;

#[derive(Clone, Debug)]
pub struct WriteEvent {
    pub seq: usize,
    pub key: String,
    pub sha: String,
    pub len: usize,
    pub existed: bool,
    pub same_bytes: bool,
    pub ok: bool,
    pub injected_fail: bool,
}

#[derive(Default)]
pub struct MonState {
    pub writes: Mutex<Vec<WriteEvent>>,
    pub nlists: Mutex<usize>,
    pub nreads: Mutex<usize>,
    /// indices (in write-call order) of writes that fail
    pub fail_at: Mutex<Vec<usize>>,
    /// fail every write from this index on
    pub fail_from: Mutex<Option<usize>>,
    /// fail every write whose key ends with this suffix ("" = every write)
    pub fail_suffix: Mutex<Option<String>>,
    pub nwrites: Mutex<usize>,
    pub snap: Mutex<bool>,
    pub snaps: Mutex<Vec<(usize, String, Files)>>,
    pub perm_seed: Mutex<Option<u64>>,
}

pub struct MonAdapter {
    pub inner: Box<dyn Adapter>,
    pub st: Arc<MonState>,
}

pub fn dump_adapter(a: &dyn Adapter) -> Files {
    let mut out = Files::new();
    if let Ok(keys) = a.list_objects("") {
        for k in keys {
            if let Ok(v) = a.read_object(&k, 0, 0) {
                out.insert(k, v);
            }
        }
    }
    out
}

impl Adapter for MonAdapter {
    fn as_any(&self) -> &dyn Any {
        self
    }
    fn as_any_mut(&mut self) -> &mut dyn Any {
        self
    }
    fn read_object(&self, k: &str, o: usize, l: usize) -> anyhow::Result<Vec<u8>> {
        *self.st.nreads.lock().unwrap() += 1;
        self.inner.read_object(k, o, l)
    }
    fn list_objects(&self, e: &str) -> anyhow::Result<Vec<String>> {
        *self.st.nlists.lock().unwrap() += 1;
        let mut v = self.inner.list_objects(e)?;
        if let Some(s) = *self.st.perm_seed.lock().unwrap() {
            v.sort();
            let mut r = Rng::derive(s, v.len() as u64, e.len() as u64);
            r.shuffle(&mut v);
        }
        Ok(v)
    }
    fn write_object(&self, k: &str, d: &[u8]) -> anyhow::Result<()> {
        let idx = {
            let mut n = self.st.nwrites.lock().unwrap();
            let i = *n;
            *n += 1;
            i
        };
        let existing = self.inner.read_object(k, 0, 0).ok();
        let existed = existing.is_some();
        let same = existing.as_ref().map(|e| e.as_slice() == d).unwrap_or(true);
        let inject = self.st.fail_at.lock().unwrap().contains(&idx)
            || self.st.fail_from.lock().unwrap().map(|f| idx >= f).unwrap_or(false)
            || self.st.fail_suffix.lock().unwrap().as_ref().map(|sfx| k.ends_with(sfx.as_str())).unwrap_or(false);
        if *self.st.snap.lock().unwrap() {
            let files = dump_adapter(self.inner.as_ref());
            self.st.snaps.lock().unwrap().push((idx, k.to_string(), files));
        }
        let res = if inject { Err(anyhow::anyhow!("injected_write_failure")) } else { self.inner.write_object(k, d) };
        self.st.writes.lock().unwrap().push(WriteEvent {
            seq: idx,
            key: k.to_string(),
            sha: sha(d),
            len: d.len(),
            existed,
            same_bytes: same,
            ok: res.is_ok(),
            injected_fail: inject,
        });
        res
    }
}

pub fn mon_over(inner: Box<dyn Adapter>) -> (Ad, Arc<MonState>) {
    let st = Arc::new(MonState::default());
    let m: Box<dyn Adapter> = Box::new(MonAdapter { inner, st: st.clone() });
    (Arc::new(RwLock::new(m)), st)
}

pub fn mon_mem() -> (Ad, Arc<MonState>) {
    mon_over(Box::new(MemoryAdapter::new()))
}

pub fn plain_mem() -> Ad {
    let a: Box<dyn Adapter> = Box::new(MemoryAdapter::new());
    Arc::new(RwLock::new(a))
}

pub fn dump(a: &Ad) -> Files {
    let g = a.read().unwrap();
    dump_adapter(g.as_ref())
}

/// A fresh memory adapter holding exactly `files`
pub fn mem_with(files: &Files) -> Ad {
    let a = plain_mem();
    {
        let g = a.read().unwrap();
        for (k, v) in files {
            g.write_object(k, v).unwrap();
        }
    }
    a
}

pub fn put(a: &Ad, k: &str, v: &[u8]) -> anyhow::Result<()> {
    a.read().unwrap().write_object(k, v)
}

/// Raw store whose content the harness can change behind the library's back.
pub struct RawStore {
    pub data: Arc<Mutex<BTreeMap<String, Vec<u8>>>>,
}
impl Adapter for RawStore {
    fn as_any(&self) -> &dyn Any {
        self
    }
    fn as_any_mut(&mut self) -> &mut dyn Any {
        self
    }
    fn read_object(&self, k: &str, o: usize, l: usize) -> anyhow::Result<Vec<u8>> {
        let d = self.data.lock().unwrap();
        let v = d.get(k).ok_or_else(|| anyhow::anyhow!("not_found"))?;
        if o == 0 && l == 0 {
            Ok(v.clone())
        } else if o + l <= v.len() {
            Ok(v[o..o + l].to_vec())
        } else {
            anyhow::bail!("range")
        }
    }
    fn write_object(&self, k: &str, d: &[u8]) -> anyhow::Result<()> {
        self.data.lock().unwrap().entry(k.to_string()).or_insert_with(|| d.to_vec());
        Ok(())
    }
    fn list_objects(&self, e: &str) -> anyhow::Result<Vec<String>> {
        Ok(self.data.lock().unwrap().keys().filter(|k| k.ends_with(e)).map(|k| k.strip_suffix(e).unwrap().to_string()).collect())
    }
}
pub fn raw_with(files: &Files) -> (Ad, Arc<Mutex<BTreeMap<String, Vec<u8>>>>) {
    let data = Arc::new(Mutex::new(files.clone()));
    let a: Box<dyn Adapter> = Box::new(RawStore { data: data.clone() });
    (Arc::new(RwLock::new(a)), data)
}
