//! Unit-level monitors over the hooked internals: C05 (revision trees), C06 (merge_arrays),
//! C16 (diff patches), C19 (revision identifiers).
use crate::engine::CaseResult;
use crate::gen::sha;
use crate::refmodel;
use crate::rng::Rng;
use melda::verif::{apply_diff_patch, make_diff_patch, merge_arrays, Revision, RevisionTree};
use serde_json::{json, Value};
use std::collections::{BTreeMap, BTreeSet};
use std::hash::{Hash, Hasher};

fn hex64(n: u64) -> String {
    format!("{:064x}", n)
}
/// a full-length digest that starts like one of the one-letter special digests ("d", "e")
/// followed by a digit or a letter, so that field-wise and text-wise comparison can differ
fn prefixed_digest(r: &mut Rng) -> String {
    let head = ["d4", "da", "d0", "e1", "ef", "e0", "d_", "f0"][r.below(8)];
    let head = if head == "d_" { "d9" } else { head };
    format!("{}{:062x}", head, r.next() % 3)
}

// ------------------------------------------------------------------------------------ C05
fn lib_view(rt: &RevisionTree) -> (BTreeSet<String>, Option<String>) {
    (rt.get_leafs().iter().map(|x| x.to_string()).collect(), rt.get_winner().map(|x| x.to_string()))
}

fn permutations(n: usize, f: &mut dyn FnMut(&[usize])) {
    fn rec(k: usize, a: &mut Vec<usize>, f: &mut dyn FnMut(&[usize])) {
        if k == a.len() {
            f(a);
            return;
        }
        for i in k..a.len() {
            a.swap(k, i);
            rec(k + 1, a, f);
            a.swap(k, i);
        }
    }
    let mut a: Vec<usize> = (0..n).collect();
    rec(0, &mut a, f);
}

pub fn c05_case(seed: u64, case: u64) -> CaseResult {
    let mut res = CaseResult::default();
    let mut r = Rng::derive(seed, case, 0x05);
    // pool: roots, chains, forks, markers, deletions, dangling subtrees
    let mut revs: Vec<(Revision, Option<Revision>)> = vec![];
    let nroots = 1 + r.below(3);
    for k in 0..nroots {
        let d = match r.below(6) {
            0 => "e".to_string(),
            1 => format!("{:x}", 0x41 + k), // char-code digest
            _ => hex64(r.next() % 5 + k as u64 * 100),
        };
        revs.push((Revision::new(1u32, d, None), None));
    }
    let small = r.chance(40);
    let steps = if small { r.below(5) } else { r.below(18) };
    for _ in 0..steps {
        let (p, _) = revs[r.below(revs.len())].clone();
        let c = match r.below(7) {
            0 => Revision::new_deleted(&p),
            1 => Revision::new_resolved(&p),
            2 => Revision::new_updated("e", &p),
            3 => Revision::new_updated(prefixed_digest(&mut r), &p),
            _ => Revision::new_updated(hex64(r.next() % 7), &p),
        };
        revs.push((c, Some(p)));
    }
    if !small && r.chance(35) {
        // a long chain crossing 9 -> 10 (-> 100)
        let (mut p, _) = revs[r.below(revs.len())].clone();
        let len = if r.chance(15) { 95 + r.below(10) } else { 8 + r.below(6) };
        for _ in 0..len {
            let c = Revision::new_updated(hex64(r.next() % 3), &p);
            revs.push((c.clone(), Some(p)));
            p = c;
        }
        // a competing shorter branch with a lexicographically larger digest
        if r.chance(60) {
            let (q, _) = revs[r.below(revs.len())].clone();
            revs.push((Revision::new_updated("f".repeat(64), &q), Some(q)));
        }
    }
    // dedup by string
    let mut seen = BTreeSet::new();
    revs.retain(|(a, _)| seen.insert(a.to_string()));
    // dangling: drop some entries (their children remain)
    let mut keep: Vec<(Revision, Option<Revision>)> = revs.iter().filter(|_| r.below(10) > 0).cloned().collect();
    if keep.is_empty() {
        keep = revs.clone();
    }
    let tree: BTreeMap<String, Option<String>> = keep.iter().map(|(a, b)| (a.to_string(), b.as_ref().map(|x| x.to_string()))).collect();
    let (leaves, w) = refmodel::leaves_winner(&tree);
    let dangling = keep.len() < revs.len();
    let has_marker = keep.iter().any(|(a, _)| a.is_resolved());
    let big_idx = keep.iter().any(|(a, _)| a.index() >= 10);
    res.features.insert("revisions".into(), keep.len() as u64);
    res.features.insert("live_leaves".into(), leaves.len() as u64);
    res.features.insert("dangling".into(), dangling as u64);
    res.features.insert("marker".into(), has_marker as u64);
    res.features.insert("index_ge_10".into(), big_idx as u64);
    res.opkinds = format!("{:?}", tree.keys().map(|k| refmodel::rev_parts(k).map(|p| (p.0, p.1.len())).unwrap_or((0, 0))).collect::<Vec<_>>());
    let mut check = |order: &[usize], mode: usize, res: &mut CaseResult| {
        let mut rt = RevisionTree::new();
        if mode == 0 {
            for &i in order {
                let (a, b) = keep[i].clone();
                rt.unvalidated_add(a, b, false);
            }
            rt.validate();
        } else {
            // add(): the caches must be right after every insertion
            let mut partial: BTreeMap<String, Option<String>> = BTreeMap::new();
            for (n, &i) in order.iter().enumerate() {
                let (a, b) = keep[i].clone();
                partial.insert(a.to_string(), b.as_ref().map(|x| x.to_string()));
                rt.add(a, b, (n + mode) % 2 == 0);
                if mode == 2 || n + 1 == order.len() {
                    let (pl, pw) = refmodel::leaves_winner(&partial);
                    let (ll, lw) = lib_view(&rt);
                    res.count("c05_tree_states_checked", 1);
                    if ll != pl || lw != pw {
                        res.viol("C05", "tree-vs-rule-after-insertion", format!("after {} insertions order {:?}: lib {:?}/{:?} rule {:?}/{:?} tree {:?}", n + 1, order, ll, lw, pl, pw, partial));
                        return;
                    }
                }
            }
        }
        let (ll, lw) = lib_view(&rt);
        res.count("c05_tree_states_checked", 1);
        if ll != leaves || lw != w {
            res.viol("C05", "tree-vs-rule", format!("order {:?} mode {}: lib {:?}/{:?} rule {:?}/{:?} tree {:?}", order, mode, ll, lw, leaves, w, tree));
        }
    };
    if keep.len() <= 6 {
        let mut orders = vec![];
        permutations(keep.len(), &mut |p| orders.push(p.to_vec()));
        res.features.insert("exhaustive_orders".into(), 1);
        for (k, o) in orders.iter().enumerate() {
            check(o, k % 3, &mut res);
        }
        res.count("c05_insertion_orders", orders.len() as u64);
    } else {
        for k in 0..50 {
            let mut order: Vec<usize> = (0..keep.len()).collect();
            r.shuffle(&mut order);
            check(&order, k % 3, &mut res);
        }
        res.count("c05_insertion_orders", 50);
    }
    res.sample = Some(json!({"tree": tree, "rule_leaves": leaves, "rule_winner": w}));
    res
}
pub fn c05_nontrivial(res: &CaseResult) -> bool {
    res.feat("live_leaves") >= 2 || res.feat("marker") >= 1 || res.feat("index_ge_10") >= 1 || res.feat("dangling") >= 1
}

// ------------------------------------------------------------------------------------ C06
/// all duplicate-free sequences over `k` letters of length <= maxlen
pub fn dupfree_sequences(k: usize, maxlen: usize) -> Vec<Vec<u8>> {
    fn rec(k: usize, maxlen: usize, cur: &mut Vec<u8>, out: &mut Vec<Vec<u8>>) {
        out.push(cur.clone());
        if cur.len() == maxlen {
            return;
        }
        for c in 0..k as u8 {
            if !cur.contains(&c) {
                cur.push(c);
                rec(k, maxlen, cur, out);
                cur.pop();
            }
        }
    }
    let mut out = vec![];
    rec(k, maxlen, &mut vec![], &mut out);
    out
}
fn to_vals(s: &[u8]) -> Vec<Value> {
    s.iter().map(|c| json!(((b'a' + c) as char).to_string())).collect()
}
fn restrict(v: &[Value], to: &[Value]) -> Vec<Value> {
    v.iter().filter(|e| to.contains(e)).cloned().collect()
}
fn check_merge(m: &[Value], n: &[Value], out: &[Value]) -> Option<String> {
    let set: BTreeSet<String> = out.iter().map(|v| v.to_string()).collect();
    if set.len() != out.len() {
        return Some("duplicate".into());
    }
    let union: BTreeSet<String> = m.iter().chain(n.iter()).map(|v| v.to_string()).collect();
    if set != union {
        return Some("set-not-union".into());
    }
    if restrict(out, n) != n {
        return Some("base-order-not-kept".into());
    }
    let cm = restrict(m, n);
    let cn = restrict(n, m);
    if cm == cn && restrict(out, m) != m {
        return Some("merged-order-not-kept-when-compatible".into());
    }
    None
}

/// case = index of the sequence used as M; merged into every sequence N
pub fn c06_case(seed: u64, case: u64, k: usize, maxlen: usize, seqs: &[Vec<u8>]) -> CaseResult {
    let mut res = CaseResult::default();
    let ms = &seqs[case as usize];
    let m = to_vals(ms);
    let mut compat = 0u64;
    for ns in seqs {
        let n = to_vals(ns);
        let mut out = n.clone();
        merge_arrays(&m, &mut out);
        res.count("c06_pairs", 1);
        if restrict(&m, &n) == restrict(&n, &m) {
            compat += 1;
        }
        if let Some(why) = check_merge(&m, &n, &out) {
            res.viol("C06", &format!("merge-{}", why), format!("merge_arrays(m={:?}, n={:?}) = {:?}", ms, ns, out));
        }
    }
    res.count("c06_order_compatible_pairs", compat);
    // random folds of 3-4 sequences, the way the library folds the ordered leaf set
    let mut r = Rng::derive(seed, case, 0x06);
    for _ in 0..40 {
        let cnt = 3 + r.below(2);
        let leaves: Vec<Vec<Value>> = (0..cnt).map(|_| to_vals(&seqs[r.below(seqs.len())])).collect();
        let base_i = r.below(cnt);
        let mut base = leaves[base_i].clone();
        for l in &leaves {
            merge_arrays(l, &mut base);
        }
        res.count("c06_folds", 1);
        let set: BTreeSet<String> = base.iter().map(|v| v.to_string()).collect();
        let union: BTreeSet<String> = leaves.iter().flatten().map(|v| v.to_string()).collect();
        if set.len() != base.len() {
            res.viol("C06", "fold-duplicate", format!("{:?} base {} -> {:?}", leaves, base_i, base));
        } else if set != union {
            res.viol("C06", "fold-set-not-union", format!("{:?} base {} -> {:?}", leaves, base_i, base));
        } else if restrict(&base, &leaves[base_i]) != leaves[base_i] {
            res.viol("C06", "fold-base-order-not-kept", format!("{:?} base {} -> {:?}", leaves, base_i, base));
        }
    }
    res.features.insert("len_m".into(), ms.len() as u64);
    res.features.insert("alphabet".into(), k as u64);
    res.features.insert("maxlen".into(), maxlen as u64);
    res.opkinds = format!("{:?}", ms);
    res.sample = Some(json!({"m": ms, "merged_into_all_n": seqs.len()}));
    res
}

// ------------------------------------------------------------------------------------ C16
pub fn sequences_with_rep(k: usize, maxlen: usize) -> Vec<Vec<u8>> {
    let mut out = vec![vec![]];
    let mut layer: Vec<Vec<u8>> = vec![vec![]];
    for _ in 0..maxlen {
        let mut next = vec![];
        for s in &layer {
            for c in 0..k as u8 {
                let mut t = s.clone();
                t.push(c);
                next.push(t);
            }
        }
        out.extend(next.iter().cloned());
        layer = next;
    }
    out
}
fn check_diff(a: &[Value], b: &[Value]) -> Option<String> {
    let patch = match std::panic::catch_unwind(|| make_diff_patch(a, b)) {
        Ok(Ok(p)) => p,
        Ok(Err(e)) => return Some(format!("make_diff_patch error {}", e)),
        Err(_) => return Some("make_diff_patch panicked".into()),
    };
    if patch.is_empty() != (a == b) {
        return Some(format!("patch empty={} but equal={}", patch.is_empty(), a == b));
    }
    let mut x = a.to_vec();
    match std::panic::catch_unwind(move || {
        let r = apply_diff_patch(&mut x, &patch);
        (x, r.is_ok())
    }) {
        Ok((x, true)) => {
            if x != b {
                Some(format!("apply(make(a,b)) = {:?}", x))
            } else {
                None
            }
        }
        Ok((_, false)) => Some("apply_diff_patch error".into()),
        Err(_) => Some("apply_diff_patch panicked".into()),
    }
}
pub fn c16_case(seed: u64, case: u64, seqs: &[Vec<u8>]) -> CaseResult {
    let mut res = CaseResult::default();
    let a_s = &seqs[case as usize];
    let a = to_vals(a_s);
    for b_s in seqs {
        let b = to_vals(b_s);
        res.count("c16_pairs", 1);
        if let Some(why) = check_diff(&a, &b) {
            res.viol("C16", "diff-roundtrip", format!("a={:?} b={:?}: {}", a_s, b_s, why));
        }
    }
    // random long arrays with block moves / reversals / repeated elements
    let mut r = Rng::derive(seed, case, 0x16);
    for _ in 0..6 {
        let n = r.below(200);
        let alpha = 1 + r.below(40);
        let a: Vec<Value> = (0..n).map(|_| json!(format!("e{}", r.below(alpha)))).collect();
        let mut b = a.clone();
        for _ in 0..1 + r.below(4) {
            match r.below(5) {
                0 if !b.is_empty() => {
                    let i = r.below(b.len());
                    let l = r.below(b.len() - i + 1);
                    let blk: Vec<Value> = b.drain(i..i + l).collect();
                    let j = r.below(b.len() + 1);
                    for (o, v) in blk.into_iter().enumerate() {
                        b.insert(j + o, v);
                    }
                }
                1 => b.reverse(),
                2 if !b.is_empty() => {
                    let i = r.below(b.len());
                    b.remove(i);
                }
                3 => {
                    let i = r.below(b.len() + 1);
                    b.insert(i, json!(format!("e{}", r.below(alpha + 3))));
                }
                _ => {
                    if r.chance(20) {
                        b.clear();
                    }
                }
            }
        }
        res.count("c16_long_pairs", 1);
        if let Some(why) = check_diff(&a, &b) {
            res.viol("C16", "diff-roundtrip-long", format!("a={:?} b={:?}: {}", a, b, why));
        }
    }
    res.features.insert("len_a".into(), a_s.len() as u64);
    res.opkinds = format!("{:?}", a_s);
    res.sample = Some(json!({"a": a_s, "diffed_against_all_b": seqs.len()}));
    res
}

// ------------------------------------------------------------------------------------ C19
fn std_hash<T: Hash>(t: &T) -> u64 {
    let mut h = std::collections::hash_map::DefaultHasher::new();
    t.hash(&mut h);
    h.finish()
}
pub fn c19_case(seed: u64, case: u64) -> CaseResult {
    use std::cmp::Ordering::*;
    let mut res = CaseResult::default();
    let mut r = Rng::derive(seed, case, 0x19);
    let mut pool: Vec<Revision> = vec![];
    for k in 0..3 {
        // real object digests through the system's own digest function
        let o = json!({"k": k, "s": r.next() % 3}).as_object().unwrap().clone();
        pool.push(Revision::new(1u32, melda::verif::digest_object(&o).unwrap(), None));
    }
    pool.push(Revision::new(1u32, "e", None));
    pool.push(Revision::new(1u32, format!("{:x}", 0x1F600), None));
    while pool.len() < 45 {
        let p = pool[r.below(pool.len())].clone();
        pool.push(match r.below(7) {
            0 => Revision::new_deleted(&p),
            1 => Revision::new_resolved(&p),
            2 => Revision::new_updated("e", &p),
            3 => Revision::new(p.index() + 1, hex64(r.next() % 4), Some(&p)),
            4 => Revision::new_updated(prefixed_digest(&mut r), &p),
            _ => Revision::new_updated(hex64(r.next() % 4), &p),
        });
    }
    let mut p = pool[r.below(3)].clone();
    let chain = if r.chance(30) { 105 } else { 15 };
    for _ in 0..chain {
        let c = if r.below(5) == 0 { Revision::new_resolved(&p) } else { Revision::new_updated(hex64(r.next() % 2), &p) };
        pool.push(c.clone());
        if !c.is_resolved() {
            p = c;
        }
    }
    // keep the pool at 60 for the triple loop, preferring a spread of indices
    r.shuffle(&mut pool);
    pool.truncate(60);
    let strs: Vec<String> = pool.iter().map(|x| x.to_string()).collect();
    let maxidx = pool.iter().map(|x| x.index()).max().unwrap_or(0);
    for (a, s) in pool.iter().zip(strs.iter()) {
        res.count("c19_roundtrips", 1);
        match Revision::from(s) {
            Ok(q) => {
                if &q != a || q.to_string() != *s || q.cmp(a) != Equal {
                    res.viol("C19", "print-parse-roundtrip", format!("{} -> {}", s, q));
                }
                if std_hash(&q) != std_hash(a) {
                    res.viol("C19", "hash-differs-for-equal", s.clone());
                }
                // identifier is a function of (digest, parent identifier text) only
                let d = hex64(r.next() % 3);
                let c1 = Revision::new_updated(d.clone(), a);
                let c2 = Revision::new_updated(d.clone(), &q);
                let expect = refmodel::child_rev(s, &d).unwrap();
                if c1 != c2 || c1.to_string() != expect {
                    res.viol("C19", "child-identifier-not-canonical", format!("{} + {} -> {} / {} (expected {})", s, d, c1, c2, expect));
                }
                let del = Revision::new_deleted(a).to_string();
                if del != refmodel::child_rev(s, "d").unwrap() {
                    res.viol("C19", "deleted-identifier-not-canonical", del);
                }
                let rs = Revision::new_resolved(a).to_string();
                if rs != refmodel::child_rev(s, "r").unwrap() {
                    res.viol("C19", "resolved-identifier-not-canonical", rs);
                }
            }
            Err(e) => res.viol("C19", "own-identifier-does-not-parse", format!("{}: {}", s, e)),
        }
    }
    let n = pool.len();
    let mut cmp = vec![vec![Equal; n]; n];
    for i in 0..n {
        for j in 0..n {
            cmp[i][j] = pool[i].cmp(&pool[j]);
        }
    }
    for i in 0..n {
        for j in 0..n {
            res.count("c19_pairs", 1);
            if cmp[i][j] != cmp[j][i].reverse() {
                res.viol("C19", "order-not-antisymmetric", format!("{} {}", strs[i], strs[j]));
            }
            let eq = pool[i] == pool[j];
            if (cmp[i][j] == Equal) != eq || eq != (strs[i] == strs[j]) {
                res.viol("C19", "order-equality-text-disagree", format!("{} {}", strs[i], strs[j]));
            }
            if pool[i].partial_cmp(&pool[j]) != Some(cmp[i][j]) {
                res.viol("C19", "partial_cmp-disagrees", format!("{} {}", strs[i], strs[j]));
            }
            // the rule of C05: resolution markers lowest, then index, then identifier bytes
            let (ri, rj) = (pool[i].is_resolved(), pool[j].is_resolved());
            let want = if ri != rj {
                if ri { Less } else { Greater }
            } else if ri && rj {
                strs[i].cmp(&strs[j])
            } else {
                pool[i].index().cmp(&pool[j].index()).then_with(|| strs[i].as_bytes().cmp(strs[j].as_bytes()))
            };
            if cmp[i][j] != want {
                res.viol("C05", "order-not-the-documented-rule", format!("{} vs {}: {:?} want {:?}", strs[i], strs[j], cmp[i][j], want));
            }
            for k in 0..n {
                if cmp[i][j] != Greater && cmp[j][k] != Greater && cmp[i][k] == Greater {
                    res.viol("C19", "order-not-transitive", format!("{} {} {}", strs[i], strs[j], strs[k]));
                }
            }
        }
    }
    res.count("c19_triples", (n * n * n) as u64);
    res.features.insert("max_index".into(), maxidx as u64);
    res.features.insert("markers".into(), pool.iter().filter(|x| x.is_resolved()).count() as u64);
    res.features.insert("crosses_100".into(), (maxidx >= 100) as u64);
    res.opkinds = sha(strs.join(",").as_bytes());
    res.sample = Some(json!({"pool_head": strs.iter().take(6).collect::<Vec<_>>(), "pool_size": n, "max_index": maxidx}));
    res
}
